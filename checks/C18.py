"""C18 - results depend only on the arguments, not on output channel or call history."""
from checks import stage_check


def _sizes(tier, k):
    if tier == "quick":
        return {2: [3], 3: [4]}.get(k, [k + 1])
    return {2: [2, 3, 4, 5], 3: [3, 4, 5], 4: [4, 5]}.get(k, [k + 1])


def _structs(tier):
    names = ("opt-literal", "literal-cards", "ref-vs-iri", "two-datatypes", "bnode-and-typed-iri", "sm-single-constraint")
    return (lambda st: st["name"] in names) if tier == "quick" else (lambda st: True)


def main(tier, t0):
    tasks = stage_check.tasks_for("C18", tier, scenario="history", sizes=_sizes, structure_filter=_structs(tier))
    tasks += stage_check.tasks_for("C18", tier, scenario="repeat", sizes=_sizes, structure_filter=_structs(tier))
    # other public calls (profile_graph, a SHACL rendering) between the two calls: made in the real pipeline of every end-to-end witness
    tasks += stage_check.tasks_for("C18", tier, scenario="history+profile_graph+shacl", sizes=lambda t, k: [k + 1], structure_filter=lambda st: st["name"] in ("opt-literal", "literal-cards", "ref-vs-iri"))
    tasks += [("harness.api", "run_history", "api/" + n, dict(name=n)) for n in ("examples-repeat", "file-vs-string", "file-vs-string-10000-lines", "shared-namespaces-dict",
                                                                                 "format-after-format", "min-iri-repeat", "cross-shaper-isolation", "ignore-several-lists")]
    return stage_check.main("C18", tier, t0, tasks=tasks,
                            extra_meta=dict(functions_encoded=["shexer.shaper.Shaper.shex_graph (memoised stages _target_classes_dict/_profile/_shape_list)", "Shaper._launch_class_shexer"],
                                            assumptions=["obligations api/* are concrete regression replays (call sequences of length <= 3, real files, > 10 000 output lines): they are NOT solver-decided; "
                                                         "output length is a loop count, not a symbolic quantity"]),
                            explanation="(a) two successive shex_graph calls on one Shaper (injected symbolic profile) with two independent symbolic thresholds: the second result equals that of a fresh "
                                        "Shaper given the second call's arguments (structure and figure tokens, z3); (b) the same call twice gives the same text; plus concrete replays: examples_mode "
                                        "repeat, file vs string (small and > 10 000 lines), ShExC after SHACL, two Shapers sharing one namespaces dictionary.")
