"""Shared driver of the H-STAGE checks."""
from harness import stage, shims
from harness.common import finish, load_findings, run_pool, seed
from symx import selftest


def tasks_for(prop, tier, cfg=None, structure_filter=None, scenario="single", judge=None, sizes=None, findings_prop=None, structures=None, label=None):
    findings = [f for f in load_findings(findings_prop or prop) if f.get("family") == "stage"]
    tasks = []
    for st in (structures if structures is not None else stage.structures(tier)):
        if structure_filter and not structure_filter(st):
            continue
        k = len(stage.R.free_vars(st["rows"]))
        for N in (sizes(tier, k) if sizes else stage.sizes(tier, k)):
            tasks.append(("harness.stage_run", "run_obligation", "%s%s/%s/N=%d" % (label + ":" if label else "", scenario, st["name"], N),
                          dict(prop=judge or prop, st_name=st["name"], N=N, findings=findings, scenario=scenario, cfg=cfg)))
    return tasks


def main(prop, tier, t0, cfg=None, structure_filter=None, explanation="", budget=(900, 5400), tasks=None, extra_meta=None):
    st = selftest.run(seed(), rounds=30)
    if tasks is None:
        tasks = tasks_for(prop, tier, cfg, structure_filter)
    results = run_pool(tasks, budget_s=budget[0] if tier == "quick" else budget[1])
    meta = dict(functions_encoded=stage.FUNCTIONS, assumptions=stage.ASSUMPTIONS, stubs=shims.STUBS_DOC[:1],
                bounds={"structures": [s["name"] for s in stage.structures(tier)], "class sizes N": "see obligations (structure/N=..)",
                        "switches": "symbolic booleans inside every obligation: " + ", ".join(stage.SWITCHES),
                        "threshold": "symbolic real in [0,1]; witnesses and counterexamples use doubles"},
                explanation=explanation + " proxy self-test: %r" % (st,))
    if extra_meta:
        for k, v in extra_meta.items():
            if isinstance(meta.get(k), list):
                meta[k] = meta[k] + v
            elif isinstance(meta.get(k), dict):
                meta[k].update(v)
            else:
                meta[k] = v
    return finish(prop, tier, results, meta, t0)
