import importlib
import sys
import time


def main(argv):
    if argv and argv[0] != "replay":
        from symx import instrument
        instrument.install()      # every shexer.* module is compiled from its current source with `in` / `join` routed through the proxies
    if not argv:
        print("usage: run <Cxx> <quick|thorough> | run replay <file> | run selftest")
        return 2
    if argv[0] == "replay":
        from harness import replay
        return replay.main(argv[1])
    if argv[0] == "selftest":
        from symx import selftest
        print(selftest.run(int(argv[1]) if len(argv) > 1 else 0))
        return 0
    prop = argv[0]
    tier = argv[1] if len(argv) > 1 else "quick"
    if tier not in ("quick", "thorough"):
        print("unknown tier", tier)
        return 2
    mod = importlib.import_module("checks.%s" % prop)
    t0 = time.time()
    return mod.main(tier, t0)


if __name__ == "__main__":
    sys.exit(main(sys.argv[1:]))
