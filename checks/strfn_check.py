"""Tasks of the H-STR family (symbolic-character obligations on the real string utilities)."""
from harness import strfn
from harness.common import load_findings


def tasks(prop, tier):
    findings = [f for f in load_findings(prop) if f.get("family") == "strfn"]
    return [("harness.strfn", "run_obligation", "str/" + ob.name, dict(prop=prop, name=ob.name, findings=findings)) for ob in strfn.obligations(prop, tier)]


def meta(prop):
    fns = sorted({f for ob in strfn.obligations(prop, "thorough") for f in ob.functions})
    return dict(functions_encoded=fns, bounds={"string obligations": "<= 2 (quick) / 4 (thorough) free symbolic characters per name over the character classes stated in harness/strfn.py; "
                                                                  "namespace dictionaries with nested namespaces in both orders"})
