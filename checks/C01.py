"""C01 - every reported instance count and frequency is exact."""
from checks import stage_check, step_check


def main(tier, t0):
    tasks = stage_check.tasks_for("C01", tier) + step_check.tasks("C01", tier)
    sm = step_check.meta("C01")
    return stage_check.main("C01", tier, t0, tasks=tasks, extra_meta=dict(functions_encoded=sm["functions_encoded"], bounds=sm["bounds"], assumptions=sm["assumptions"]),
                            explanation="(b) H-STAGE: per path every printed count token equals the row-level oracle count (z3 Int disequality unsat) and every ratio is count/N within 1e-7 and <= 100 "
                                        "(table query over the counters). (a) H-STEP: each transition of the feature-counting pass (_annotate_target_subject/_object, class aggregation in one and "
                                        "two directions) from an arbitrary pre-state with symbolic counters changes exactly the documented cells by one; with the instance-tracker steps of C10 this "
                                        "gives by induction 'counter = number of matching triples / instances'.")
