"""C01 - every reported instance count and frequency is exact."""
from checks import stage_check


def main(tier, t0):
    return stage_check.main("C01", tier, t0, explanation="per path: every printed count token equals the row-level oracle count (z3 Int disequality unsat) and every ratio is count/N within 1e-7 and <= 100 (table query over the counters).")
