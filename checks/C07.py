"""C07 - the streaming Turtle reader yields exactly the triples of the document."""
from harness import ttl, shims
from harness.common import finish, load_findings, run_pool, seed
from symx import selftest

PROP = "C07"


def main(tier, t0):
    st = selftest.run(seed(), rounds=40)
    findings = [f for f in load_findings(PROP) if f.get("family") == "ttl"]
    tasks = [("harness.ttl", "run_obligation", name, dict(spec=spec, findings=findings)) for name, spec in ttl.skeletons(tier)]
    tasks += [("harness.ttl", "run_raw", "out-of-dialect/" + n, dict(name=n)) for n in ttl.RAW_DOCS]
    results = run_pool(tasks, budget_s=900 if tier == "quick" else 5400)
    meta = dict(functions_encoded=ttl.FUNCTIONS, bounds={"tier": ttl.BOUNDS[tier]}, assumptions=ttl.ASSUMPTIONS, stubs=shims.STUBS_DOC[1:],
                explanation="every (abstract document, layout vector) pair is executed symbolically through the real reader; on each path z3 decides whether the "
                            "yielded triples can differ from the abstract triples; every path is replayed on a concrete model against the real reader. "
                            "proxy self-test: %r" % (st,))
    return finish(PROP, tier, results, meta, t0)
