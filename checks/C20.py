"""C20 - contradictory or unsupported configurations are rejected up front (Engine B: guard2smt)."""
import random
import time

import z3

from guard2smt import check as G
from guard2smt.translate import Unsupported
from harness.common import finish, load_findings, new_result, seed

PROP = "C20"


def _equivalence(res, api, it, table, ref, findings):
    impl = it.raises_value_error()
    other = it.raises_other()
    res["paths"] = len(it.raises) + 1
    res["decisions"] = len(it.raises) + len(it.calls)
    res["reach"] = 1
    s = z3.Solver()
    s.set("timeout", 120000)
    # vacuity: both accept and reject must be possible for impl and ref
    for name, e in (("impl raises", impl), ("impl accepts", z3.Not(impl)), ("ref raises", ref), ("ref accepts", z3.Not(ref))):
        s.push()
        s.add(e)
        t = time.time()
        r = s.check()
        res["solver_calls"] += 1
        res["solver_s"] += time.time() - t
        s.pop()
        if r != z3.sat:
            res["error"] = "vacuity: '%s' is %s" % (name, r)
            return
    known = []
    for f in findings:
        if f.get("status") != "fixed" and f.get("family") == "guard" and f.get("api") == api:
            known.append((f["id"], G_PRED[f["predicate"]](table)))
    queries = [("accept/reject boundary differs from the reference", impl != ref),
               ("a guard raises something other than ValueError", other)]
    for what, q in queries:
        res["queries"] += 1
        s.push()
        s.add(q)
        if known:
            s.add(z3.Not(z3.Or([e for _, e in known])))
        t = time.time()
        r = s.check()
        res["solver_calls"] += 1
        res["solver_s"] += time.time() - t
        if r == z3.unknown:
            res["inconclusive"] = "z3 unknown on '%s'" % what
        elif r == z3.sat:
            m = s.model()
            kwargs = G.materialise(table, m)
            ref_r = z3.is_true(m.eval(ref, model_completion=True))
            res["violations"].append(dict(what=what, replay=dict(family="guard", args=dict(api=api, kwargs=G.jsonable(kwargs), ref_raises=ref_r)),
                                          expected="ValueError" if ref_r else "accepted", observed="see replay"))
        else:
            second = G.second_opinion(list(s.assertions()))
            res["extra"].setdefault("second_solver", {})[what] = second
            if second != "unsat":
                res["inconclusive"] = "/usr/bin/z3 answered %r on '%s' where the python API answered unsat" % (second, what)
        s.pop()
        if known:
            s.push()
            s.add(q)
            for fid, e in known:
                if s.check(e) == z3.sat:
                    res["known"][fid] = res["known"].get(fid, 0) + 1
            s.pop()
    res["samples"].append(dict(api=api, guard_statements=res["extra"].get("guard_statements"), raise_sites=len(it.raises),
                               functions=sorted(set(it.calls)), variables=sorted(table)))


def _nan(table):
    return z3.fpIsNaN(table["acceptance_threshold"].e)


G_PRED = {"threshold_is_nan": _nan}


def _validate(res, api, table, impl, real, defaults, calls, g, rng, n_random):
    n = 0
    for kw in calls:
        kw = {k: v for k, v in kw.items() if k in defaults}
        f = G.formula_value(table, impl, kw, defaults)
        r = real({k: v for k, v in kw.items()})
        if (r == "ValueError") != f:
            res["error"] = "translator validation: formula says raises=%s, real %s says %s for %r" % (f, api, r, kw)
            return
        n += 1
    for _ in range(n_random):
        kw = G.random_kwargs(rng, table, g, api)
        f = G.formula_value(table, impl, kw, defaults)
        r = real(dict(kw))
        if (r == "ValueError") != f:
            res["error"] = "translator validation: formula says raises=%s, real %s says %s for %r" % (f, api, r, kw)
            return
        n += 1
    res["witnesses"] += n
    res["paths"] = max(res["paths"], 1)
    res["reach"] = 1


def main(tier, t0):
    findings = load_findings(PROP)
    g = G._globals()
    results = []
    rng = random.Random(seed())
    n_random = 300 if tier == "quick" else 3000
    try:
        shaper = G._shaper_module()
        for api, translate, ref_f, real, func in (
                ("ctor", G.translate_ctor, G.ref_ctor, G.real_ctor_raises, shaper.Shaper.__init__),
                ("shex_graph", G.translate_shex_graph, G.ref_shex_graph, G.real_shex_graph_raises, shaper.Shaper.shex_graph)):
            t = time.time()
            it, table, stmts = translate()
            fresh = G.make_fresh(table)
            ref = ref_f(table, fresh, g)
            r1 = new_result("%s/equivalence-with-reference-predicate" % api)
            r1["extra"]["guard_statements"] = stmts
            _equivalence(r1, api, it, table, ref, findings)
            r1["wall_s"] = time.time() - t
            results.append(r1)
            t = time.time()
            r2 = new_result("%s/translator-validation" % api)
            defaults = G.api_defaults(func)
            calls = G.extract_test_calls() if api == "ctor" else []
            r2["extra"]["test_suite_calls"] = len(calls)
            _validate(r2, api, table, it.raises_value_error(), real, defaults, calls, g, rng, n_random)
            r2["wall_s"] = time.time() - t
            results.append(r2)
    except Unsupported as e:
        r = new_result("translation")
        r["error"] = "source outside the translatable fragment: %s" % e
        results.append(r)
    meta = dict(
        engine="guard2smt: the current source of the validation functions is parsed with ast and interpreted symbolically into one z3 term raises_ValueError(args); "
               "queries are discharged by z3 (python API 5.1) and re-answered by /usr/bin/z3 4.8.12 from SMT-LIB text",
        functions_encoded=["shexer.shaper.Shaper.__init__ (statements before the first attribute assignment)", "shexer.utils.obj_references.check_just_one_not_none",
                           "Shaper._check_target_classes", "Shaper._check_or_config", "Shaper._check_input_format", "Shaper._check_compression_mode",
                           "Shaper._check_examples_mode", "Shaper.shex_graph (leading _check_* calls)", "Shaper._check_correct_output_params",
                           "Shaper._check_output_format", "Shaper._check_aceptance_threshold"],
        bounds={"strings": "unbounded (z3 sequence theory, equality only)", "presence": "all 2^11 combinations of the 7 graph sources and 4 target arguments (symbolic Booleans)",
                "threshold": "all IEEE-754 doubles including NaN and infinities (FP64)", "outside": "arguments that are not None but falsy/of a wrong type; failures after the guard prefix"},
        assumptions=["an optional argument is modelled by 'is None' only (a present opaque argument is truthy)", "flags are booleans",
                     "the reference predicate is the 10-line transcription of the property statement in guard2smt/check.py (ref_ctor, ref_shex_graph)",
                     "the real API used for translator validation and replay stubs get_remote_graph_if_needed / get_shape_map_if_needed (constructor) and the stages after the three checks (shex_graph)"],
        stubs=["shexer.shaper.get_remote_graph_if_needed -> None", "shexer.shaper.get_shape_map_if_needed -> None", "Shaper._generate_uml_diagram / _build_shapes_serializer -> no-op (shex_graph)"],
        explanation="UNSAT of raises_impl != raises_ref decides the accept/reject boundary for every presence combination and every string; translator validated by pushing "
                    "the constructor calls of /repo/test and seeded random argument sets through both the formula and the real API",
        require_reach=False)
    return finish(PROP, tier, results, meta, t0)
