"""C03 - in all-compliant mode every instance conforms to its extracted shape."""
from checks import stage_check, step_check

STRICT = {"all_instances_are_compliant_mode": True, "keep_less_specific": True}


def _sizes(tier, k):
    if tier == "quick":
        return {2: [2, 3], 3: [3, 4]}.get(k, [k + 1])
    return {2: [2, 3, 4, 5, 6], 3: [3, 4, 5, 6], 4: [4, 5]}.get(k, [k + 1])


def _consistent(st):
    # strict domain of the property: homogeneous non-literal neighbours, all untyped or all instances of one single-typed class
    return not any(t in st["tags"] for t in ("iri+bnode", "ref-tie", "shapemap")) and st["name"] not in (
        "ref-vs-iri", "ref-and-iri-same-node", "multi-typed", "typed-bnode-values", "own-links-both-ways", "literal-looks-like-instance", "cycle", "bnode-and-typed-iri")


def main(tier, t0):
    cfg = {"fixed_flags": STRICT, "fixed_threshold": 0.0}
    tasks = stage_check.tasks_for("C03", tier, scenario="single", sizes=_sizes, cfg=cfg, structure_filter=_consistent)
    # outside the strict domain the three recorded root causes apply; those structures are explored with the findings as excluded classes
    tasks += stage_check.tasks_for("C03", tier, scenario="single", sizes=_sizes, cfg={"fixed_flags": {"all_instances_are_compliant_mode": True}, "fixed_threshold": 0.0},
                                   structure_filter=lambda st: not _consistent(st) and "shapemap" not in st["tags"])
    tasks += stage_check.tasks_for("C03", tier, scenario="pair:all_instances_are_compliant_mode", judge="C13", sizes=_sizes, cfg={}, findings_prop="C13",
                                   structure_filter=lambda st: st["name"] in ("opt-literal", "literal-cards", "incoming-cards"))
    # larger classes (one deviating instance among 25 / 60): "almost all" is not "all"
    tasks += stage_check.tasks_for("C03", tier, scenario="single", sizes=lambda t, k: [25] if t == "quick" else [25, 60], cfg=cfg, label="large-class",
                                   structure_filter=lambda st: st["name"] in ("opt-literal", "twice-or-never"))
    tasks += step_check.tasks("C01", tier)      # the per-instance counts that feed the cardinalities (feature-pass transitions)
    return stage_check.main("C03", tier, t0, tasks=tasks,
                            explanation="threshold 0, all-compliant mode: on every path the emitted (concrete) schema is read back and every row instance is validated against the shape of each of its "
                                        "classes by a reference ShEx validator (partition semantics per predicate and direction, references followed with a coinductive visited set); the solver decides which "
                                        "schemas are reachable for which multiplicities and switches. The end-to-end witness validates the concrete graph against the real pipeline's schema. "
                                        "'Switching the mode off never changes any cardinality except the relaxations' is the paired run of C13.")
