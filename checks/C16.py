"""C16 - restriction options equal restricting the input."""
from checks import strfn_check, step_check
from harness import shims
from harness.common import finish, run_pool, seed
from symx import selftest


def main(tier, t0):
    st = selftest.run(seed(), rounds=30)
    tasks = strfn_check.tasks("C16", tier) + step_check.tasks("C16", tier)
    from checks import stage_check
    import json
    # (c) a cap not smaller than every class changes nothing: the real pipeline of every witness runs with and without the cap
    tasks += stage_check.tasks_for("C16", tier, scenario="pair:e2e:" + json.dumps({"instances_cap": 50}), judge="SAME", sizes=lambda t, k: [3] if t == "quick" else [2, 3, 4, 5],
                                   structure_filter=lambda st: st["name"] in ("opt-literal", "ref-vs-iri", "multi-typed", "own-links", "two-datatypes"),
                                   cfg={"fixed_flags": {"disable_exact_cardinality": False}})
    tasks += stage_check.tasks_for("C16", tier, scenario="ignore-ns", judge="SAME", sizes=lambda t, k: [3] if t == "quick" else [2, 3, 4, 5],
                                   structure_filter=lambda st: st["name"] == "ignored-namespace", cfg={"fixed_flags": {"disable_exact_cardinality": False}})
    tasks += [(m, f, "targets/" + ob, dict(kw, cfg=dict(kw["cfg"], targets=["C", "D"]))) for (m, f, ob, kw) in
              stage_check.tasks_for("C16", tier, scenario="pair:e2e:" + json.dumps({"instances_cap": 50}), judge="SAME", sizes=lambda t, k: [3],
                                    structure_filter=lambda st: st["name"] in ("opt-literal", "ref-vs-iri"), cfg={"fixed_flags": {"disable_exact_cardinality": False}})]
    # ignoring the namespace of the instantiation property itself: class membership is still read from the full graph
    tasks += stage_check.tasks_for("C16", tier, scenario="pair:e2e:" + json.dumps({"namespaces_to_ignore": ["http://www.w3.org/1999/02/22-rdf-syntax-ns#"]}), judge="C16rdf",
                                   sizes=lambda t, k: [k + 1] if t == "quick" else [k, k + 1, k + 2],
                                   structure_filter=lambda st: st["name"] in ("opt-literal", "ref-vs-iri", "multi-typed", "own-links", "incoming-fresh"),
                                   cfg={"fixed_flags": {"disable_exact_cardinality": False, "remove_empty_shapes": False}})
    tasks += [("harness.api", "run_history", "api/ignore-several-lists", dict(name="ignore-several-lists"))]     # concrete: several lists in one process
    results = run_pool(tasks, budget_s=600 if tier == "quick" else 3000)
    m, sm = strfn_check.meta("C16"), step_check.meta("C16")
    meta = dict(functions_encoded=m["functions_encoded"] + sm["functions_encoded"], bounds=dict(m["bounds"], **sm["bounds"]), stubs=["triples yielder of the tracker / filter: a python stub yielding harness-built model triples"],
                assumptions=sm["assumptions"] + ["(c) figures of the capped subset are C01's obligations on the sub-structure; 'cap >= every class size changes nothing' follows from the cap step (never rejects below the cap)"],
                explanation="(a) check_if_property_belongs_to_namespace_list on namespace + symbolic tail against nested namespace lists in both orders, and FilterNamespacesTriplesYielder over a stub yielder; "
                            "(b) one step of InstanceCapMode from an arbitrary state with symbolic per-class counters, symbolic cap and symbolic completion state: accepted <=> count < cap, counters and "
                            "completion updated exactly, early stop <=> all target classes complete; with the relevance step of C10 this gives by induction 'the first min(cap,|C|) instances in document order'. "
                            "proxy self-test: %r" % (st,))
    return finish("C16", tier, results, meta, t0)
