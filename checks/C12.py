"""C12 - raising the acceptance threshold only removes constraints."""
from checks import stage_check


def _sizes(tier, k):
    if tier == "quick":
        return {2: [3], 3: [4]}.get(k, [k + 1])
    return {2: [2, 3, 4, 5, 6], 3: [3, 4, 5, 6], 4: [4, 5]}.get(k, [k + 1])


def main(tier, t0):
    tasks = stage_check.tasks_for("C12", tier, scenario="two-thresholds", sizes=_sizes)
    tasks += stage_check.tasks_for("C12", tier, scenario="single", judge="C12z", cfg={"fixed_threshold": 0.0}, sizes=_sizes, label="t=0")
    tasks += stage_check.tasks_for("C12", tier, scenario="single", judge="C12o", cfg={"fixed_threshold": 1.0}, sizes=_sizes, label="t=1")
    # the same three obligations with the ratios printed rounded (decimals = 0 / 1): rounding is presentation only and must not move the accept/reject boundary
    few = lambda st: st["name"] in ("opt-literal", "literal-cards", "ref-vs-iri", "incoming-fresh", "sm-single-constraint", "three-rows-mixed")
    for dec in (0, 1):
        tasks += stage_check.tasks_for("C12", tier, scenario="two-thresholds", sizes=_sizes, cfg={"decimals": dec}, structure_filter=few, label="decimals=%d" % dec)
        tasks += stage_check.tasks_for("C12", tier, scenario="single", judge="C12z", cfg={"fixed_threshold": 0.0, "decimals": dec}, sizes=_sizes, structure_filter=few, label="t=0,decimals=%d" % dec)
        tasks += stage_check.tasks_for("C12", tier, scenario="single", judge="C12o", cfg={"fixed_threshold": 1.0, "decimals": dec}, sizes=_sizes, structure_filter=few, label="t=1,decimals=%d" % dec)
    # two classes sharing a local name (both shapes carry the same label - recorded finding of C05): each of them still only loses constraints
    from harness import stage
    tasks += stage_check.tasks_for("C12", tier, scenario="two-thresholds", sizes=lambda t, k: [k + 1] if t == "quick" else [k, k + 1, k + 2], structures=stage.label_clash_structures(), label="label-clash")
    tasks += stage_check.tasks_for("C12", tier, scenario="single", judge="C12z", cfg={"fixed_threshold": 0.0}, sizes=lambda t, k: [k + 1], structures=stage.label_clash_structures(), label="label-clash,t=0")
    return stage_check.main("C12", tier, t0, tasks=tasks,
                            explanation="two symbolic real thresholds t1 <= t2 inside one path (two fresh Shapers on the same symbolic profile): keys(t2) subset keys(t1), shapes(t2) subset shapes(t1), "
                                        "figures of facts present at both are equal under the path condition; plus threshold 0 fixed: every observed exact-cardinality feature appears as a constraint or a comment. "
                                        "threshold 1 fixed: every figure still printed equals the class size.")
