"""C12 - raising the acceptance threshold only removes constraints."""
from checks import stage_check


def _sizes(tier, k):
    if tier == "quick":
        return {2: [3], 3: [4]}.get(k, [k + 1])
    return {2: [2, 3, 4, 5, 6], 3: [3, 4, 5, 6], 4: [4, 5]}.get(k, [k + 1])


def main(tier, t0):
    tasks = stage_check.tasks_for("C12", tier, scenario="two-thresholds", sizes=_sizes)
    tasks += stage_check.tasks_for("C12", tier, scenario="single", judge="C12z", cfg={"fixed_threshold": 0.0}, sizes=_sizes)
    tasks += stage_check.tasks_for("C12", tier, scenario="single", judge="C12o", cfg={"fixed_threshold": 1.0}, sizes=_sizes)
    return stage_check.main("C12", tier, t0, tasks=tasks,
                            explanation="two symbolic real thresholds t1 <= t2 inside one path (two fresh Shapers on the same symbolic profile): keys(t2) subset keys(t1), shapes(t2) subset shapes(t1), "
                                        "figures of facts present at both are equal under the path condition; plus threshold 0 fixed: every observed exact-cardinality feature appears as a constraint or a comment. "
                                        "threshold 1 fixed: every figure still printed equals the class size.")
