"""C04 - extraction never crashes on a valid graph and a valid configuration."""
from checks import stage_check
from harness import nt, ttl
from harness.common import load_findings


def _sizes(tier, k):
    if tier == "quick":
        return {2: [2, 3], 3: [4]}.get(k, [k + 1])
    return {2: [2, 3, 4, 5], 3: [3, 4, 5], 4: [4, 5]}.get(k, [k + 1])


def main(tier, t0):
    tasks = stage_check.tasks_for("C04", tier, scenario="single", sizes=_sizes, cfg={"want_shacl": True})
    tasks += stage_check.tasks_for("C04", tier, scenario="pair:disable_or_statements", sizes=_sizes, cfg={"want_shacl": True},
                                   structure_filter=lambda st: any(t in st["tags"] for t in ("iri+bnode", "ref-tie", "mixed-typed-values")) or st["name"] in ("ref-vs-iri", "typed-bnode-values"))
    # options that act outside the symbolically executed stage (example and IRI-stem bookkeeping, instance cap): the real pipeline of every end-to-end witness runs with them
    import json
    for opt in ({"examples_mode": "all", "detect_minimal_iri": True}, {"instances_cap": 1}):
        tasks += stage_check.tasks_for("C04", tier, scenario="pair:e2e:" + json.dumps(opt, sort_keys=True), sizes=lambda t, k: [k + 1] if t == "quick" else [k, k + 1, k + 2],
                                       structure_filter=lambda st: any(t in st["tags"] for t in ("iri+bnode", "mixed-typed-values")) or st["name"] in ("ref-vs-iri", "typed-bnode-values", "bnode-instances", "own-links", "incoming-cards", "multi-typed", "sm-chain", "sm-sink"))
    # every supported way of handing the graph over (files, compressed files, TSV, rdflib syntaxes, rdflib Graph): the real pipeline of each witness must not raise
    tasks += stage_check.tasks_for("C04", tier, scenario="delivery", sizes=lambda t, k: [k + 1],
                                   structure_filter=lambda st: st["name"] in ("two-datatypes", "typed-bnode-values", "bnode-instances", "custom-datatype", "incoming-fresh"),
                                   cfg={"fixed_flags": {"allow_opt_cardinality": True, "disable_exact_cardinality": False, "discard_useless_constraints_with_positive_closure": True,
                                                        "all_instances_are_compliant_mode": True, "keep_less_specific": True}})
    fnt = [f for f in load_findings("C04") if f.get("family") == "nt"]
    fttl = [f for f in load_findings("C04") if f.get("family") == "ttl"]
    # every literal / node / tail / base skeleton of both readers (C06 / C07 judge the triples; here only "no exception, no non-termination")
    nts = [x for x in nt.skeletons(tier) if x[0].startswith(("nodes/", "tail/", "lit/"))]
    ttls = [x for x in ttl.skeletons(tier) if x[0].startswith(("lit/", "int/", "base/", "rebind"))]
    tasks += [("harness.nt", "run_obligation", "nt-noraise/" + n, dict(spec=s, findings=fnt, check_c04_only=True)) for n, s in nts]
    tasks += [("harness.ttl", "run_obligation", "ttl-noraise/" + n, dict(spec=s, findings=fttl, check_c04_only=True)) for n, s in ttls]
    tasks += [("harness.api", "run_obligation", "api/" + n, dict(name=n)) for n in ("profile_graph/string", "profile_graph/file", "shex_graph/sinks")]
    return stage_check.main("C04", tier, t0, tasks=tasks,
                            extra_meta=dict(functions_encoded=nt.FUNCTIONS + ttl.FUNCTIONS + ["shexer.shaper.Shaper.profile_graph", "Shaper._check_correct_output_params"]),
                            explanation="any exception (or non-termination) escaping the real code on a path is a violation: H-STAGE over all structures incl. the adversarial ones (IRI+BNode mixes with and without "
                                        "typed values, shape-map selected nodes, thresholds symbolic) x {ShExC, SHACL} x disjunctions on/off; the N-Triples and streaming Turtle readers on symbolic-character "
                                        "documents (language tags, datatypes, node kinds); profile_graph / shex_graph with symbolic sink selection.")
