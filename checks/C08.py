"""C08 - the extracted shapes do not depend on how the graph is delivered."""
from harness import delivery, shims
from harness.common import finish, load_findings, run_pool, seed
from symx import selftest

PROP = "C08"


def main(tier, t0):
    st = selftest.run(seed(), rounds=30)
    fnt = [f for f in load_findings("C06") if f.get("family") == "nt"]
    tasks = [("harness.delivery", "run_obligation", name, dict(kw, findings=fnt)) for name, kw in delivery.obligations(tier)]
    # concrete delivery matrix on the end-to-end witnesses of symbolically explored stage paths (NOT solver-decided: rdflib parsers, codecs and the file system are real)
    from checks import stage_check
    names = ("opt-literal", "two-datatypes", "ref-vs-iri", "typed-bnode-values", "multi-typed", "bnode-instances", "own-links", "incoming-fresh", "custom-datatype", "iri-and-bnode-untyped", "plain-literal-with-at")
    tasks += stage_check.tasks_for(PROP, tier, scenario="delivery", judge="C08e", sizes=lambda t, k: [k + 1] if t == "quick" else [k, k + 1, k + 2],
                                   structure_filter=lambda st: st["name"] in names, cfg={"fixed_flags": {"allow_opt_cardinality": True, "disable_exact_cardinality": False, "discard_useless_constraints_with_positive_closure": True,
                                                        "all_instances_are_compliant_mode": True} if tier == "quick" else {"allow_opt_cardinality": True}})
    results = run_pool(tasks, budget_s=600 if tier == "quick" else 3000)
    meta = dict(functions_encoded=delivery.FUNCTIONS, bounds={"tier": tier}, assumptions=delivery.ASSUMPTIONS,
                stubs=["open() of shexer.io.line_reader.file_line_reader in the symbolic run: a stream over the symbolic lines with universal-newline iteration; validated on every path against real temporary files"],
                explanation="proxy self-test: %r" % (st,))
    return finish(PROP, tier, results, meta, t0)
