"""C02 - a shape holds exactly the features at or above the acceptance threshold."""
from checks import stage_check


def main(tier, t0):
    return stage_check.main("C02", tier, t0, explanation="per path: key present <=> fl(count/N) >= t decided by z3 for every candidate key of every class; no duplicate keys; one shape per class.")
