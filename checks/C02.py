"""C02 - a shape holds exactly the features at or above the acceptance threshold."""
from checks import stage_check


def main(tier, t0):
    tasks = stage_check.tasks_for("C02", tier)
    # target_classes selection (requested classes first, an instance-less requested class, a non-requested class that is not tracked)
    tasks += [(m, f, "targets/" + ob, dict(kw, cfg={"targets": ["Zzz", "C", "D"]})) for (m, f, ob, kw) in
              stage_check.tasks_for("C02", tier, structure_filter=lambda st: st["name"] in ("ref-vs-iri", "two-refs", "multi-typed", "opt-literal", "own-links"),
                                    sizes=lambda t, k: [3] if t == "quick" else [2, 3, 4, 5])]
    return stage_check.main("C02", tier, t0, tasks=tasks, explanation="per path: key present <=> fl(count/N) >= t decided by z3 for every candidate key of every class; no duplicate keys; one shape per class.")
