"""C05 - produced schemas are well-formed and closed."""
from checks import stage_check


def _sizes(tier, k):
    if tier == "quick":
        return {2: [3], 3: [4]}.get(k, [k + 1])
    return {2: [2, 3, 4, 5], 3: [3, 4, 5], 4: [4, 5]}.get(k, [k + 1])


def main(tier, t0):
    tasks = stage_check.tasks_for("C05", tier, scenario="single", sizes=_sizes, cfg={"want_shacl": True}, structure_filter=lambda st: st.get("mode") != "shapemap")
    tasks += stage_check.tasks_for("C05", tier, scenario="single", sizes=_sizes, cfg={"want_shacl": False}, structure_filter=lambda st: st.get("mode") == "shapemap")
    # disjunctions switched on (ShExC only: SHACL with disjunctions is a recorded C04 finding): the structures that produce OR statements, comments on and off
    ors = lambda st: any(t in st["tags"] for t in ("iri+bnode", "ref-tie", "mixed-typed-values")) or st["name"] in ("ref-vs-iri", "typed-bnode-values", "refs-different-cards")
    tasks += stage_check.tasks_for("C05", tier, scenario="single", sizes=_sizes, cfg={"want_shacl": False, "or_flags": (False, False)}, structure_filter=ors, label="or-statements")
    tasks += stage_check.tasks_for("C05", tier, scenario="single", sizes=_sizes, cfg={"want_shacl": False, "or_flags": (False, True)}, structure_filter=ors, label="redundant-or")
    # long documents written to a file (buffered writer, flushed every 5000 lines): the file holds the whole well-formed document (concrete replays, as C18)
    tasks += [("harness.api", "run_history", "api/" + n, dict(name=n)) for n in ("file-vs-string", "file-vs-string-10000-lines", "shacl-shape-map-prefixed-labels")]
    # two classes with the same local name in different namespaces (recorded finding: both shapes get the same label)
    from harness import stage
    tasks += stage_check.tasks_for("C05", tier, scenario="single", sizes=lambda t, k: [k + 1], cfg={"want_shacl": False}, structures=stage.label_clash_structures(), label="label-clash")
    from checks import strfn_check
    tasks += strfn_check.tasks("C05", tier)
    return stage_check.main("C05", tier, t0, tasks=tasks, extra_meta=strfn_check.meta("C05"),
                            explanation="(c) closure: on every path of the symbolic stage (thresholds and remove_empty_shapes symbolic, class-selected and shape-map-selected structures incl. "
                                        "reference chains and cycles) the ShExC text is accepted by the independent reader, every label is defined once, every @reference resolves, every "
                                        "used prefix is declared once; the SHACL text parses (rdflib), every sh:node is a declared NodeShape, every property shape has one path. "
                                        "(a)/(b) token rendering and prefix selection: symbolic-character obligations on the real string utilities.")
