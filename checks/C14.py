"""C14 - inverse paths add incoming-link constraints and leave the rest untouched."""
from checks import stage_check, step_check


def _sizes(tier, k):
    if tier == "quick":
        return {2: [3], 3: [4]}.get(k, [k + 1])
    return {2: [2, 3, 4, 5, 6], 3: [3, 4, 5], 4: [4, 5]}.get(k, [k + 1])


def main(tier, t0):
    tasks = stage_check.tasks_for("C14", tier, scenario="inverse3", sizes=_sizes,
                                  structure_filter=lambda st: st["inverse_ok"] and "ref-tie" not in st["tags"] and st["name"] not in ("sm-chain", "sm-incoming-from-emptied"))
    # (the two excluded shape-map structures: in reverse(G) the referencing shape's target is emptied and removed, and the reference is then dropped - the recorded
    #  finding STAGE-ref-to-removed-shape-drops-constraint of C02/C12 - so reverse(G) is not a usable oracle for them)
    # the same three runs with the classes requested through target_classes (the profile is then initialised per requested class before reading)
    for name, targets in (("own-links", ["C", "D"]), ("multi-typed-incoming", ["C", "E"]), ("literal-looks-like-instance", ["C", "D"])):
        tasks += [(m, f, "targets/" + ob, dict(kw, cfg=dict(kw["cfg"] or {}, targets=targets))) for (m, f, ob, kw) in
                  stage_check.tasks_for("C14", tier, scenario="inverse3", sizes=lambda t, k: [k + 1] if t == "quick" else [k, k + 1, k + 2], structure_filter=lambda st, name=name: st["name"] == name, cfg={})]
    tasks += step_check.tasks("C14", tier)
    sm = step_check.meta("C14")
    return stage_check.main("C14", tier, t0, tasks=tasks, extra_meta=dict(functions_encoded=sm["functions_encoded"], bounds=sm["bounds"], assumptions=sm["assumptions"]),
                            explanation="three runs inside one symbolic path on the same rows: inverse_paths on G, off on G, off on reverse(G); shapes, instance counts and outgoing "
                                        "constraints (keys, cardinalities, value expressions, figures, comments) of run 1 equal run 2; '^' constraints of run 1 equal the non-literal constraints of run 3.")
