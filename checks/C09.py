"""C09 - shapes do not depend on statement order or blank-node labels."""
from checks import stage_check, step_check
from harness import nt, ttl
from harness.common import load_findings


def _sizes(tier, k):
    if tier == "quick":
        return {2: [2, 3], 3: [4]}.get(k, [k + 1])
    return {2: [2, 3, 4, 5, 6], 3: [3, 4, 5], 4: [4, 5]}.get(k, [k + 1])


def main(tier, t0):
    tasks = stage_check.tasks_for("C09", tier, scenario="permuted", sizes=_sizes)
    from harness import stage
    tasks += stage_check.tasks_for("C09", tier, scenario="permuted", sizes=lambda t, k: [k + 1] if t == "quick" else [k, k + 1, k + 2], structures=stage.label_clash_structures(), label="label-clash")
    # the order-dependent folds outside the stage (IRI stems, examples) on both orders of the real pipeline
    tasks += stage_check.tasks_for("C09", tier, scenario="permuted", sizes=lambda t, k: [k + 1], label="with-stems",
                                   structure_filter=lambda st: st["name"] in ("bnode-instances", "multi-typed", "own-links"), cfg={"real_context": {"detect_minimal_iri": True}})
    tasks += stage_check.tasks_for("C09", tier, scenario="permuted", sizes=lambda t, k: [k + 1], label="with-stems", structures=stage.namespace_structures(),
                                   structure_filter=lambda st: st["name"] in ("ns-scheme-only", "ns-three-namespaces", "ns-urn-and-short"), cfg={"real_context": {"detect_minimal_iri": True}})
    tasks += step_check.tasks("C09", tier)
    # (c) blank-node labels through the real readers: for every label (symbolic characters, dots included) the reader yields the blank node with exactly that label
    fnt = [f for f in load_findings("C06") if f.get("family") == "nt"]
    fttl = [f for f in load_findings("C07") if f.get("family") == "ttl"]
    tasks += [("harness.nt", "run_obligation", "nt-labels/" + n, dict(spec=s_, findings=fnt)) for n, s_ in nt.skeletons(tier) if n.startswith("nodes/") and "bnode" in n and n.endswith("/sp_dot")]
    tasks += [("harness.ttl", "run_obligation", "ttl-labels/" + n, dict(spec=s_, findings=fttl)) for n, s_ in ttl.skeletons(tier) if "bnode" in n]
    sm = step_check.meta("C09")
    return stage_check.main("C09", tier, t0, tasks=tasks, extra_meta=dict(functions_encoded=sm["functions_encoded"], bounds=sm["bounds"], assumptions=sm["assumptions"]),
                            explanation="(b) the same row structure presented in two statement orders (rows, classes and outgoing triples reversed - every insertion order of classes, properties, "
                                        "kinds and cardinalities changes) with shared symbolic multiplicities inside one path: same shapes, instance counts, constraint keys, and the same evidence facts "
                                        "with equal figures (z3 on the tokens); chosen constraints equal on structures without tied node kinds. (a) H-STEP: the feature-pass and class-aggregation "
                                        "transitions are additive per cell from arbitrary pre-states, hence commute; (c) blank-node labels are symbolic in the reader and profiler obligations "
                                        "(results depend on a label through equality only). Whole-document permutation through the real readers happens in the end-to-end witness of every path.")
