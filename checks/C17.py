"""C17 - IRI patterns and examples come from the data."""
from checks import strfn_check
from harness import shims
from harness.common import finish, run_pool, seed
from symx import selftest


def main(tier, t0):
    st = selftest.run(seed(), rounds=30)
    tasks = strfn_check.tasks("C17", tier)
    from checks import step_check
    tasks += step_check.tasks("C17", tier)
    results = run_pool(tasks, budget_s=600 if tier == "quick" else 3000)
    m = strfn_check.meta("C17")
    sm = step_check.meta("C17")
    meta = dict(functions_encoded=m["functions_encoded"] + sm["functions_encoded"], bounds=dict(m["bounds"], **sm["bounds"]), stubs=shims.STUBS_DOC[2:],
                assumptions=["instance IRIs are absolute IRIs with a non-empty authority; characters of IRIs range over every Unicode scalar allowed in an IRIREF"] + sm.get("assumptions", []),
                explanation="longest_common_prefix, the fold in ClassProfiler._update_shape_min_iri and AnnotateMinIriStrategy._determine_suitable_iri_pattern are executed on strings with "
                            "symbolic characters: result is a common prefix, maximal, cut back to the last of : / #, and None for stems shorter than 3 or bare schemes; the example-annotation "
                            "steps are executed from symbolic pre-states (H-STEP). proxy self-test: %r" % (st,))
    return finish("C17", tier, results, meta, t0)
