"""C17 - IRI patterns and examples come from the data."""
from checks import strfn_check
from harness import shims, stage
from harness.common import finish, run_pool, seed
from symx import selftest


def main(tier, t0):
    st = selftest.run(seed(), rounds=30)
    tasks = strfn_check.tasks("C17", tier)
    from checks import step_check, stage_check
    tasks += step_check.tasks("C17", tier)
    import json
    structs = ("opt-literal", "ref-vs-iri", "bnode-instances", "own-links", "incoming-fresh", "multi-typed")
    for opt in ({"detect_minimal_iri": True}, {"examples_mode": "all"}, {"examples_mode": "cons", "detect_minimal_iri": True}, {"examples_mode": "shape"}):
        tasks += stage_check.tasks_for("C17", tier, scenario="pair:e2e:" + json.dumps(opt, sort_keys=True), judge="C17e", sizes=lambda t, k: [3] if t == "quick" else [2, 3, 4],
                                       structure_filter=lambda st: st["name"] in structs, cfg={"fixed_flags": {"remove_empty_shapes": True, "disable_exact_cardinality": False},
                                            # the SHACL rendering (sh:pattern) of both runs is produced and judged too for the stem-only pair
                                            "want_shacl": opt in ({"detect_minimal_iri": True}, {"examples_mode": "all"}, {"examples_mode": "shape"})})
    # instances drawn from 1..3 namespaces with shared / unshared path segments, bare schemes, too short stems
    for opt in ({"detect_minimal_iri": True}, {"examples_mode": "all", "detect_minimal_iri": True}):
        tasks += stage_check.tasks_for("C17", tier, scenario="pair:e2e:" + json.dumps(opt, sort_keys=True), judge="C17e", sizes=lambda t, k: [k + 1] if t == "quick" else [k, k + 1, k + 2],
                                       structures=stage.namespace_structures(),
                                       cfg={"fixed_flags": {"remove_empty_shapes": True, "disable_exact_cardinality": False}, "want_shacl": opt == {"detect_minimal_iri": True}})
    results = run_pool(tasks, budget_s=600 if tier == "quick" else 3000)
    m = strfn_check.meta("C17")
    sm = step_check.meta("C17")
    meta = dict(functions_encoded=m["functions_encoded"] + sm["functions_encoded"], bounds=dict(m["bounds"], **sm["bounds"]), stubs=shims.STUBS_DOC[2:],
                assumptions=["instance IRIs are absolute IRIs with a non-empty authority; characters of IRIs range over every Unicode scalar allowed in an IRIREF"] + sm.get("assumptions", []),
                explanation="longest_common_prefix, the fold in ClassProfiler._update_shape_min_iri and AnnotateMinIriStrategy._determine_suitable_iri_pattern are executed on strings with "
                            "symbolic characters: result is a common prefix, maximal, cut back to the last of : / #, and None for stems shorter than 3 or bare schemes; the example-annotation "
                            "steps are executed from symbolic pre-states (H-STEP); stem / example rendering and 'neither option changes any constraint' are judged on the real pipeline's output of every "
                            "end-to-end witness of the paired stage runs (concrete oracle: stem recomputed from the instance IRIs, example looked up among the actual values). proxy self-test: %r" % (st,))
    return finish("C17", tier, results, meta, t0)
