"""C11 - ShExC and SHACL outputs state the same constraints."""
from checks import stage_check, step_check


def _sizes(tier, k):
    if tier == "quick":
        return {2: [3], 3: [4]}.get(k, [k + 1])
    return {2: [2, 3, 4, 5], 3: [3, 4, 5], 4: [4, 5]}.get(k, [k + 1])


def main(tier, t0):
    tasks = stage_check.tasks_for("C11", tier, scenario="single", sizes=_sizes, cfg={"want_shacl": True},
                                  structure_filter=lambda st: st.get("mode") != "shapemap")
    # classes requested through target_classes, one of them without instances: with remove_empty_shapes off both outputs hold its empty shape
    tasks += [(m, f, "targets/" + ob, dict(kw, cfg=dict(kw["cfg"], targets=["C", "Z"]))) for (m, f, ob, kw) in
              stage_check.tasks_for("C11", tier, scenario="single", sizes=lambda t, k: [k + 1], cfg={"want_shacl": True}, structure_filter=lambda st: st["name"] in ("opt-literal", "two-datatypes"))]
    # both documents written to files hold what the strings hold (long outputs: buffered writer) - concrete replays shared with C18
    tasks += [("harness.api", "run_history", "api/" + n, dict(name=n)) for n in ("file-vs-string", "file-vs-string-10000-lines")]
    tasks += step_check.tasks("C11", tier)
    return stage_check.main("C11", tier, t0, tasks=tasks, extra_meta=dict(functions_encoded=step_check.meta("C11")["functions_encoded"]),
                            explanation="on every path both real serializers run on the same shape list of one Shaper; the ShExC parse and the SHACL graph are reduced to "
                                        "(shape, target class, direction, predicate, value restriction, min, max) tuples which must coincide under the mapping of the property.")
