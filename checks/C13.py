"""C13 - each option changes only what it documents."""
from checks import stage_check

QUICK_OPTS = ["disable_comments", "decimals=2", "decimals=0", "report=ratio", "report=abs", "namespaces_dict",
              "all_instances_are_compliant_mode", "allow_opt_cardinality", "disable_exact_cardinality", "disable_or_statements"]
THOROUGH_OPTS = QUICK_OPTS + ["decimals=1", "allow_redundant_or"]


def _sizes(tier, k):
    if tier == "quick":
        return {2: [3], 3: [4]}.get(k, [k + 1])
    return {2: [2, 3, 4, 6], 3: [3, 4, 5], 4: [4, 5]}.get(k, [k + 1])


def _quick_structs(st):
    return st["name"] in ("opt-literal", "literal-cards", "ref-vs-iri", "ref-and-iri-same-node", "two-refs", "bnode-and-typed-iri", "multi-typed", "incoming-cards",
                          "three-rows-mixed", "typed-bnode-values", "sm-single-constraint", "refs-different-cards")


def main(tier, t0):
    tasks = []
    for opt in (QUICK_OPTS if tier == "quick" else THOROUGH_OPTS):
        tasks += stage_check.tasks_for("C13", tier, scenario="pair:" + opt, sizes=_sizes, structure_filter=_quick_structs if tier == "quick" else None)
    # the presentation options again while IRI stems and examples are printed (both runs of the real pipeline of every witness; judged on the real outputs)
    ctx_structs = lambda st: st["name"] in ("opt-literal", "ref-vs-iri", "multi-typed", "incoming-cards", "bnode-and-typed-iri")
    for opt in ("disable_comments", "report=abs", "report=ratio", "decimals=2"):
        tasks += stage_check.tasks_for("C13", tier, scenario="pair:" + opt, sizes=lambda t, k: [k + 1], structure_filter=ctx_structs, label="with-stems-and-examples",
                                       cfg={"real_context": {"detect_minimal_iri": True, "examples_mode": "all"}, "fixed_flags": {"allow_opt_cardinality": True, "disable_exact_cardinality": False}})
    # a large class: rounding at decimals=0 starts to matter (199/200 prints as 100 %): presentation must still not decide anything
    tasks += stage_check.tasks_for("C13", tier, scenario="pair:decimals=0", sizes=lambda t, k: [200] if t == "quick" else [200, 250], label="large-class",
                                   structure_filter=lambda st: st["name"] == "opt-literal", cfg={"fixed_threshold": 0.0, "fixed_flags": {"keep_less_specific": True, "discard_useless_constraints_with_positive_closure": True,
                                                                                                                                          "allow_opt_cardinality": True, "disable_exact_cardinality": False, "remove_empty_shapes": True, "inverse_paths": False}})
    tasks += [("harness.api", "run_history", "api/" + n, dict(name=n)) for n in ("file-vs-string", "file-vs-string-10000-lines")]   # 'output file vs string' (concrete, as C18)
    return stage_check.main("C13", tier, t0, tasks=tasks,
                            explanation="one symbolic input evaluated under a pair of configurations differing in one option (remaining switches symbolic): presentation options leave the parsed "
                                        "structure identical; decimals=n: every printed ratio is within 0.5*10^-n of the exact ratio (table query over the counters); all-compliant / allow_opt / "
                                        "disable_exact / disable_or change only what they document (per-constraint rules decided with z3 on the figure tokens).")
