"""C06 - the N-Triples reader yields exactly the triples of the document."""
from harness import nt, shims
from harness.common import finish, load_findings, run_pool, seed
from symx import selftest

PROP = "C06"


def main(tier, t0):
    st = selftest.run(seed(), rounds=40)
    findings = [f for f in load_findings(PROP) if f.get("family") == "nt"]
    tasks = [("harness.nt", "run_obligation", name, dict(spec=spec, findings=findings)) for name, spec in nt.skeletons(tier)]
    results = run_pool(tasks, budget_s=600 if tier == "quick" else 3000)
    meta = dict(functions_encoded=nt.FUNCTIONS, bounds={"tier": nt.BOUNDS[tier]}, assumptions=nt.ASSUMPTIONS,
                stubs=["none on this path (RawStringLineReader, NtTriplesYielder, tune_token, parse_literal run unmodified; allow_untyped_numbers=False so float() is not reached)"],
                explanation="every statement skeleton is executed symbolically through the real reader; on each path z3 decides whether the yielded "
                            "triples can differ from the triples the document was generated from; every path is additionally replayed on a concrete "
                            "model against the real reader (engine faithfulness). proxy self-test: %r" % (st,))
    return finish(PROP, tier, results, meta, t0)
