"""C10 - shapes are computed from exactly the nodes the user selected."""
from checks import strfn_check, step_check
from harness import shims
from harness.common import finish, run_pool, seed
from symx import selftest


def main(tier, t0):
    st = selftest.run(seed(), rounds=30)
    tasks = strfn_check.tasks("C10", tier) + step_check.tasks("C10", tier)
    tasks += [("harness.api", "run_history", "api/" + n, dict(name=n)) for n in ("selectors-fsm", "selectors-json", "custom-instantiation-property", "selectors-two-graphs", "all-classes-plus-shape-map",
                                                                                 "file-target-classes", "selectors-literal-answers", "target-classes-spellings")]
    results = run_pool(tasks, budget_s=600 if tier == "quick" else 3000)
    m, sm = strfn_check.meta("C10"), step_check.meta("C10")
    meta = dict(functions_encoded=m["functions_encoded"] + sm["functions_encoded"], bounds=dict(m["bounds"], **sm["bounds"]),
                stubs=["triples yielder of the tracker: a python stub", "sparql.prepareQuery (selector parser): no-op; evaluation of generated queries by rdflib is trusted (outside symbolic reach)"],
                assumptions=sm["assumptions"] + ["obligations api/* are concrete end-to-end replays (10 selectors x 2 label spellings x 2 syntaxes on one graph; rdflib evaluates the generated queries): NOT solver-decided"],
                explanation="(a) one step of the instance tracker (TargetClassesMode / AllClasesMode, instantiation property rdf:type / custom / P31) on a triple whose predicate and object IRIs carry "
                            "symbolic characters: accepted <=> predicate = instantiation property and (all classes or object in targets), instance map gains exactly (subject -> + class); "
                            "(b) target class names in full / <bracketed> / prefixed spelling resolve to the full IRI; (c) selector and label parsing on symbolic IRIs. proxy self-test: %r" % (st,))
    return finish("C10", tier, results, meta, t0)
