"""Tasks of the H-STEP family (one transition from an arbitrary symbolic pre-state)."""
from harness import step
from harness.common import load_findings


def tasks(prop, tier):
    findings = [f for f in load_findings(prop) if f.get("family") == "step"]
    return [("harness.strfn", "run_obligation", "step/" + ob.name, dict(prop=prop, name=ob.name, findings=findings, module="harness.step"))
            for ob in step.obligations(prop, tier)]


def meta(prop):
    fns = sorted({f for ob in step.obligations(prop, "thorough") for f in ob.functions})
    return dict(functions_encoded=fns, assumptions=["pre-states satisfy the representation invariant of the pass (every counter >= 1 where a key exists; per-class counters <= cap); "
                                                    "the steps are composed by induction on the document, not executed in sequence"],
                bounds={"steps": "one real method call per obligation from a pre-state with <= 3 keys per level; counters are symbolic integers in [0,50]; "
                                 "node IRIs carry 1 symbolic character (equality with tracked instances decided by the solver)"})
