"""Property oracles over one path of H-STAGE (symbolic) and over one concrete end-to-end run.

Symbolic judges yield (what, bad, cls): `bad` is a z3 Bool / python bool that is satisfiable under the path condition iff
the property can be violated on this path; `cls` optionally names a recorded defect class (known_findings.json).
Concrete judges return a list of problem strings for a real output on a concrete graph; they share no code with sheXer.
"""
import z3

from symx import HarnessError, SymFloat, SymInt
from . import rows as R
from . import shexc
from .stage import (TOL, as_expr, ge_threshold_expr, over_100_expr, ratio_ok_expr, shape_of, statement_keys, target_key)

RDF_TYPE = R.RDF_TYPE


def fig_value(ex, fig):
    if fig is None:
        return None
    if fig.token is not None:
        return ex.tokens[fig.token][0]
    try:
        return int(fig.text)
    except ValueError:
        return float(fig.text)


def _is_lit_kind(kind):
    return kind not in ("IRI", "BNode") and not kind.startswith("%")


def candidate_keys(sym, c):
    """{key: count} for every (direction, predicate, value class) observed in the rows of class c."""
    out = {}
    for (cc, d, prop, kind, card), cnt in sym["ref"].items():
        if cc != c:
            continue
        if prop == RDF_TYPE:
            out[(d == 1, prop, ("value", kind))] = cnt
        elif _is_lit_kind(kind) and card == "+":
            out[(d == 1, prop, ("datatype", kind))] = cnt
    for (cc, d, prop, card), cnt in sym["nonlit"].items():
        if cc == c and card == "+":
            out[(d == 1, prop, ("nonliteral",))] = cnt
    return out


def _neg(e):
    return (not e) if isinstance(e, bool) else z3.Not(e)


# ------------------------------------------------------------------------- C05 (closure part) / shared parse

def parse_or_problem(text):
    try:
        return shexc.parse(text), None
    except shexc.ShExSyntaxError as e:
        return None, "ShExC output does not parse: %s" % e


def judge_c05(ctx, ex):
    for r in ctx["runs"]:
        schema, problem = r["schema"], r["parse_problem"]
        if problem:
            yield (problem, True, None)
            continue
        clash = "label-clash" in ctx["structure"]["tags"]
        for p in shexc.check_closed(schema):
            yield (p, True, "STAGE-same-local-name-same-label" if clash and p.startswith("shape label") else None)
        if r.get("shacl") is not None:
            for p in shacl_problems(r["shacl"]):
                yield (p, True, None)


def shacl_problems(text):
    import rdflib
    SH = rdflib.Namespace("http://www.w3.org/ns/shacl#")
    g = rdflib.Graph()
    try:
        g.parse(data=text, format="turtle")
    except Exception as e:  # noqa
        return ["SHACL output does not parse as Turtle: %s" % str(e)[:100]]
    out = []
    shapes = set(g.subjects(rdflib.RDF.type, SH.NodeShape))
    for o in g.objects(None, SH.node):
        if o not in shapes:
            out.append("sh:node %s is not a declared sh:NodeShape" % o)
    for ps in g.subjects(rdflib.RDF.type, SH.PropertyShape):
        paths = list(g.objects(ps, SH.path))
        inv = [x for b in g.objects(ps, SH.property) for x in g.objects(b, SH.inversePath)]
        if len(paths) + len(inv) != 1:
            out.append("property shape with %d sh:path and %d inverse paths" % (len(paths), len(inv)))
    return out


# ------------------------------------------------------------------------- C02

def _refs_a_removed_shape(sym, schema, c, k):
    """The values behind key k = (inverse, pred, value class) of class c include instances of a shape that is not in the output (removed as empty)."""
    labels = {sh.label for sh in schema.shapes}
    for key in sym["ref"]:
        cc, d, p, kind = key[0], key[1], key[2], key[3]
        if cc == c and bool(d) == bool(k[0]) and p == k[1] and isinstance(kind, str) and kind.startswith("%<"):
            if kind[2:-1] not in labels:
                return True
    return False


def judge_c02(ctx, ex):
    r0 = ctx["runs"][0]
    schema, sym, t = r0["schema"], r0["sym"], r0["t"]
    if schema is None:
        yield (r0["parse_problem"], True, None)
        return
    tagged = "iri+bnode" in ctx["structure"]["tags"]
    expected_labels = set()
    for c, size in sym["counts"].items():
        shapes = shape_of(schema, c)
        expected_labels.add(R.shape_name(c)[2:-1])
        sm_removal = "shapemap" in ctx["structure"]["tags"] and r0["flags"]["remove_empty_shapes"]
        if len(shapes) == 0 and sm_removal:
            # documented: an empty shape is removed.  Then no literal / value-set feature may reach the threshold
            # (non-literal ones can vanish with the shapes they referenced: recorded finding)
            for k, cnt in candidate_keys(sym, c).items():
                if k[2] != ("nonliteral",):
                    yield ("shape %s was removed although its feature %r reaches the threshold" % (c, k), ge_threshold_expr(cnt, size, t), None)
                else:
                    yield ("shape %s was removed although its feature %r reaches the threshold" % (c, k), ge_threshold_expr(cnt, size, t),
                           "STAGE-ref-to-removed-shape-drops-constraint" if _refs_a_removed_shape(sym, schema, c, k) else None)
            continue
        if isinstance(size, int) and size == 0:
            # a requested class without instances: an empty shape reporting 0 instances iff empty shapes are kept
            want = 0 if r0["flags"]["remove_empty_shapes"] else 1
            if len(shapes) != want:
                yield ("%d shapes for the requested class %s that has no instances (remove_empty_shapes=%s)" % (len(shapes), c, r0["flags"]["remove_empty_shapes"]), True, None)
            elif shapes and (shapes[0].statements or (shapes[0].n_instances is not None and shapes[0].n_instances.text != "0")):
                yield ("shape of the instance-less class %s is not empty / does not report 0 instances" % c, True, None)
            continue
        if len(shapes) != 1:
            yield ("%d shapes for class %s" % (len(shapes), c), True, None)
            continue
        sh = shapes[0]
        present = {}
        for stm in sh.statements:
            for k in statement_keys(stm):
                present[k] = present.get(k, 0) + 1
        for k, n in present.items():
            if n > 1:
                yield ("two constraints for the key %r in %s" % (k, sh.label), True, None)
        cands = candidate_keys(sym, c)
        for k, cnt in cands.items():
            oracle = ge_threshold_expr(cnt, size, t)
            cls = "STAGE-nonliteral-filter-before-merge" if (tagged and k[2] == ("nonliteral",)) else None
            if sm_removal and k[2] == ("nonliteral",) and _refs_a_removed_shape(sym, schema, c, k):
                cls = "STAGE-ref-to-removed-shape-drops-constraint"
            if k in present:
                yield ("constraint %r present in %s although its frequency is below the threshold" % (k, sh.label), _neg(oracle), cls)
            else:
                yield ("constraint %r missing from %s although its frequency reaches the threshold" % (k, sh.label), oracle, cls)
        for k in present:
            if k not in cands:
                yield ("constraint %r in %s for a feature that is not in the data" % (k, sh.label), True, None)
    for s in schema.shapes:
        if s.label not in expected_labels:
            yield ("shape %s for something that is not a selected class" % s.label, True, None)


# ------------------------------------------------------------------------- C01

def _kind_of_target(t):
    kind, v = t
    if kind == "datatype" or kind == "value":
        return v
    if kind == "ref":
        return "%<" + v + ">"
    return v  # 'IRI', 'BNode', 'NONLITERAL'


def _count_candidates(sym, c, d, prop, kind, card, disable_exact, on_line):
    """Acceptable oracle counts for a printed figure."""
    ref, nonlit = sym["ref"], sym["nonlit"]
    out = []
    if kind == "NONLITERAL":
        if (c, d, prop) in sym["both_kinds"]:
            return None  # not checked (see the property's quantifier)
        table = {k[3]: v for k, v in nonlit.items() if k[:3] == (c, d, prop)}
    else:
        table = {k[4]: v for k, v in ref.items() if k[:4] == (c, d, prop, kind)}
    if card in table:
        out.append(table[card])
    if card == "+" and on_line and disable_exact:
        out.extend(v for k, v in table.items() if isinstance(k, int) and k > 1)
    return out


def judge_c01(ctx, ex):
    r0 = ctx["runs"][0]
    schema, sym, flags = r0["schema"], r0["sym"], r0["flags"]
    if schema is None:
        yield (r0["parse_problem"], True, None)
        return
    for c, size in sym["counts"].items():
        for sh in shape_of(schema, c):
            nv = fig_value(ex, sh.n_instances)
            if nv is None:
                yield ("no instance count on the header of %s" % sh.label, True, None)
            else:
                yield ("instance count of %s differs from the number of selected nodes" % sh.label, _differs(nv, size), None)
            for stm in sh.statements:
                if len(stm.targets) != 1:
                    continue
                d = 1 if stm.inverse else 0
                kind = _kind_of_target(stm.targets[0])
                cls = "STAGE-nonliteral-merge-figures" if kind == "NONLITERAL" else None
                if stm.count is not None or stm.ratio is not None:
                    yield from _check_figure(ex, sym, c, d, stm.pred, kind, stm.card, stm.ratio, stm.count, size, flags, True,
                                             "line '%s' of %s" % (stm.raw.strip()[:60], sh.label), cls)
                elif stm.card not in ("*", "?"):
                    yield ("constraint line without a figure in %s: %s" % (sh.label, stm.raw.strip()[:60]), True, None)
                for com in stm.comments:
                    if com.get("other") or com.get("annotation"):
                        continue
                    ckind = _kind_of_target(com["obj"]) if com["obj"] is not None else kind
                    ccls = "STAGE-nonliteral-merge-figures" if ckind == "NONLITERAL" else None
                    yield from _check_figure(ex, sym, c, d, stm.pred, ckind, com["card"], com["ratio"], com["count"], size, flags, False,
                                             "comment '%s' of %s" % (com["raw"][:60], sh.label), ccls)


def _differs(v, size):
    if isinstance(v, (int, float)) and isinstance(size, int):
        return v != size
    se = as_expr(size) if not isinstance(size, SymFloat) else None
    if isinstance(v, SymFloat):
        return z3.Not(v._table(v.deps, lambda vals: z3.IntVal(int(v.fn(vals))) == se if v.fn(vals) == int(v.fn(vals)) else False))
    return as_expr(v) != se


def _check_figure(ex, sym, c, d, prop, kind, card, ratio, count, size, flags, on_line, where, cls):
    cands = _count_candidates(sym, c, d, prop, kind, card, flags["disable_exact_cardinality"], on_line)
    if cands is None:
        return
    if not cands:
        yield ("%s reports a (kind, cardinality) that no instance has" % where, True, cls)
        return
    cexprs = [as_expr(x) for x in cands]
    if count is not None:
        cv = fig_value(ex, count)
        ce = as_expr(cv)
        yield ("count on %s is not the number of instances with that many values" % where, z3.And([ce != x for x in cexprs]), cls)
    if ratio is not None:
        rv = fig_value(ex, ratio)
        yield ("ratio on %s is not count/instances" % where, z3.Not(ratio_ok_expr(rv, cexprs, size)), cls)
        yield ("ratio on %s exceeds 100 %%" % where, over_100_expr(rv), cls)


# ------------------------------------------------------------------------- concrete judges (real output on a concrete graph)

class ConcreteRef:
    """Reference figures recomputed from the triples of a concrete document."""

    def __init__(self, triples, inverse, instances=None, extra_classes=()):
        self.instances, self.feats = R.refprof(triples, inverse=inverse, instances=instances)
        self.extra_classes = list(extra_classes)
        self.ref, _ = R.reference_counts(self.instances, self.feats, lambda n: 1, inverse=inverse)
        self.sizes = {}
        for node, classes in self.instances.items():
            for c in classes:
                self.sizes[c] = self.sizes.get(c, 0) + 1
        for c in self.extra_classes:
            self.sizes.setdefault(c, 0)
        self.nonlit, self.both = {}, set()
        for node, classes in self.instances.items():
            for d in ((0, 1) if inverse else (0,)):
                for prop, kinds in self.feats[node][d].items():
                    if prop == RDF_TYPE:
                        continue
                    n_nl = kinds.get("IRI", 0) + kinds.get("BNode", 0)
                    if n_nl:
                        for c in classes:
                            for card in (n_nl, "+"):
                                self.nonlit[(c, d, prop, card)] = self.nonlit.get((c, d, prop, card), 0) + 1
                            if kinds.get("IRI", 0) and kinds.get("BNode", 0):
                                self.both.add((c, d, prop))

    def as_sym(self):
        return dict(ref=self.ref, nonlit=self.nonlit, both_kinds=self.both, counts=self.sizes)


def _num(fig):
    if fig is None:
        return None
    try:
        return int(fig.text)
    except ValueError:
        return float(fig.text)


def concrete_c02(cref, schema, threshold, tags, remove_empty=True):
    problems = []
    sym = cref.as_sym()
    labels = set()
    for c, size in cref.sizes.items():
        labels.add(R.shape_name(c)[2:-1])
        shapes = shape_of(schema, c)
        sm_removal = "shapemap" in tags and remove_empty
        if size == 0:
            if len(shapes) != (0 if remove_empty else 1):
                problems.append("%d shapes for the requested class %s without instances" % (len(shapes), c))
            continue
        if len(shapes) == 0 and sm_removal:
            for k, cnt in candidate_keys(sym, c).items():
                if (k[2] != ("nonliteral",) or not _refs_a_removed_shape(sym, schema, c, k)) and float(cnt) / float(size) >= threshold:
                    problems.append("shape %s was removed although its feature %r reaches the threshold" % (c, k))
            continue
        if len(shapes) != 1:
            problems.append("%d shapes for class %s" % (len(shapes), c))
            continue
        present = {}
        for stm in shapes[0].statements:
            for k in statement_keys(stm):
                present[k] = present.get(k, 0) + 1
        for k, n in present.items():
            if n > 1:
                problems.append("two constraints for the key %r" % (k,))
        cands = candidate_keys(sym, c)
        for k, cnt in cands.items():
            if "iri+bnode" in tags and k[2] == ("nonliteral",):
                continue
            if sm_removal and k[2] == ("nonliteral",) and "known-ref-removed" in tags and _refs_a_removed_shape(sym, schema, c, k):
                continue
            want = float(cnt) / float(size) >= threshold
            if want != (k in present):
                problems.append("key %r: present=%s but frequency %d/%d vs threshold %r" % (k, k in present, cnt, size, threshold))
        for k in present:
            if k not in cands:
                problems.append("constraint %r for a feature that is not in the data" % (k,))
    for s in schema.shapes:
        if s.label not in labels:
            problems.append("shape %s for something that is not a selected class" % s.label)
    return problems


def concrete_c01(cref, schema, flags, tags):
    problems = []
    sym = cref.as_sym()
    for c, size in cref.sizes.items():
        for sh in shape_of(schema, c):
            n = _num(sh.n_instances)
            if n is not None and n != size:
                problems.append("header of %s says %r instances, the graph has %d" % (sh.label, n, size))
            for stm in sh.statements:
                if len(stm.targets) != 1:
                    continue
                d = 1 if stm.inverse else 0
                kind = _kind_of_target(stm.targets[0])
                items = []
                if stm.count is not None or stm.ratio is not None:
                    items.append((kind, stm.card, stm.ratio, stm.count, True, stm.raw.strip()[:70]))
                for com in stm.comments:
                    if com.get("other") or com.get("annotation"):
                        continue
                    ckind = _kind_of_target(com["obj"]) if com["obj"] is not None else kind
                    items.append((ckind, com["card"], com["ratio"], com["count"], False, com["raw"][:70]))
                for k2, card, ratio, count, on_line, where in items:
                    if k2 == "NONLITERAL" and "iri+bnode-known" in tags:
                        continue
                    cands = _count_candidates(sym, c, d, stm.pred, k2, card, flags["disable_exact_cardinality"], on_line)
                    if cands is None:
                        continue
                    cv, rv = _num(count), _num(ratio)
                    if cv is not None and cv not in cands:
                        problems.append("%s: count %r, the graph says %r" % (where, cv, cands))
                    if rv is not None:
                        if rv > 100.0 + TOL:
                            problems.append("%s: ratio above 100 %%" % where)
                        if not any(abs(rv - 100.0 * x / size) <= max(TOL * 100, 0.5 * 10 ** -_decimals(ratio.text)) for x in cands):
                            problems.append("%s: ratio %r, the graph says %r of %d" % (where, rv, cands, size))
    return problems


def _decimals(text):
    return len(text.split(".")[1]) if "." in text else 0


# ------------------------------------------------------------------------- views shared by the relational judges

def statements_view(schema):
    """{shape label: {key: [(card, targets)]}} with key = (inverse, pred, value class)."""
    out = {}
    for sh in schema.shapes:
        d = {}
        for stm in sh.statements:
            for k in statement_keys(stm):
                d.setdefault(k, []).append((stm.card, tuple(stm.targets)))
        out[sh.label] = d
    return out


def facts(schema):
    """{(shape, inverse, pred, kind, card): (ratio Fig, count Fig)} over constraint lines and comments."""
    out = {}
    for sh in schema.shapes:
        for stm in sh.statements:
            if len(stm.targets) == 1 and (stm.ratio is not None or stm.count is not None):
                out[(sh.label, stm.inverse, stm.pred, _kind_of_target(stm.targets[0]), stm.card, "line")] = (stm.ratio, stm.count)
            for com in stm.comments:
                if com.get("other") or com.get("annotation"):
                    continue
                kind = _kind_of_target(com["obj"]) if com["obj"] is not None else "OR"
                out[(sh.label, stm.inverse, stm.pred, kind, com["card"], "comment")] = (com["ratio"], com["count"])
    return out


def fig_differs(ex, f1, f2):
    """z3 Bool / python bool: the two printed figures can differ."""
    if f1 is None and f2 is None:
        return False
    if f1 is None or f2 is None:
        return True
    v1, v2 = fig_value(ex, f1), fig_value(ex, f2)
    if isinstance(v1, (int, float)) and isinstance(v2, (int, float)):
        return abs(v1 - v2) > TOL
    if isinstance(v1, SymInt) or isinstance(v2, SymInt):
        if isinstance(v1, SymFloat) or isinstance(v2, SymFloat) or isinstance(v1, float) or isinstance(v2, float):
            raise HarnessError("integer and float figures compared")
        return as_expr(v1) != as_expr(v2)
    a, b = SymFloat.lift(v1), SymFloat.lift(v2)
    deps, p1, p2 = a._merge(b)
    return a._table(deps, lambda vals: abs(a.fn(p1(vals)) - b.fn(p2(vals))) > TOL)


def _shape_classes(ctx):
    return list(ctx["runs"][0]["sym"]["counts"].keys())


# ------------------------------------------------------------------------- C12

def judge_c12(ctx, ex):
    lo, hi = ctx["runs"][0], ctx["runs"][1]
    if lo["schema"] is None or hi["schema"] is None:
        yield (lo["parse_problem"] or hi["parse_problem"], True, None)
        return
    tagged = "iri+bnode" in ctx["structure"]["tags"]
    if "label-clash" in ctx["structure"]["tags"]:      # equally labelled shapes (recorded C05 finding) are told apart by their class value
        lo, hi = dict(lo, schema=_unique_labels(lo["schema"])), dict(hi, schema=_unique_labels(hi["schema"]))
    v_lo, v_hi = statements_view(lo["schema"]), statements_view(hi["schema"])
    for label, keys in v_hi.items():
        if label not in v_lo:
            yield ("shape %s exists at the higher threshold but not at the lower one" % label, True, None)
            continue
        for k in keys:
            if k not in v_lo[label]:
                cls = "STAGE-nonliteral-filter-before-merge" if tagged and k[2] == ("nonliteral",) else None
                yield ("constraint %r of %s appears only at the higher threshold" % (k, label), True, cls)
    f_lo, f_hi = facts(lo["schema"]), facts(hi["schema"])
    by_fact_lo = {}
    for k, v in f_lo.items():
        by_fact_lo.setdefault(k[:5], []).append(v)
    # one alternative (kind, cardinality) is reported once per constraint: two comments naming it with different figures cannot both be "the" figure
    for r in (lo, hi):
        for sh in r["schema"].shapes:
            for stm in sh.statements:
                seen = {}
                for com in stm.comments:
                    if com.get("other") or com.get("annotation") or com.get("obj") is None:
                        continue
                    key = (_kind_of_target(com["obj"]), com["card"])
                    if key in seen:
                        yield ("alternative %r of %s / %s is reported twice with different figures" % (key, sh.label, stm.pred), fig_differs(ex, seen[key], com["ratio"]), None)
                    else:
                        seen[key] = com["ratio"]
    # an alternative (kind, cardinality) reported at the higher threshold is reported at the lower one too: raising the threshold only removes
    # (checked under keep_less_specific and discard_useless_constraints_with_positive_closure, the defaults: with either switched off the code deliberately
    #  hides the '+' alternative or a less frequent one behind the chosen constraint at low thresholds, so it can surface later - observed on the unchanged tree)
    lo_facts = {kk[:5] for kk in f_lo}
    strict = all(r["flags"]["keep_less_specific"] and r["flags"]["discard_useless_constraints_with_positive_closure"] for r in (lo, hi))
    for k in (f_hi if strict else ()):
        if k[:5] not in lo_facts:
            if k[4] == "+" and (hi["flags"]["disable_exact_cardinality"] or lo["flags"]["disable_exact_cardinality"]):
                continue   # '+' produced by generalising an exact cardinality is not an observed alternative of its own
            # (with IRI and blank-node values mixed, the per-kind statements - shape references included - are filtered before they are merged: recorded finding)
            cls = "STAGE-nonliteral-filter-before-merge" if tagged and (k[3] in ("NONLITERAL", "IRI", "BNode") or str(k[3]).startswith("%")) else None
            yield ("alternative %r is reported at the higher threshold only" % (k[:5],), True, cls)
    for k, (ratio, count) in f_hi.items():
        # a '+' line produced by generalising an exact cardinality carries that cardinality's figure - observed on the unchanged tree only when the
        # all-compliant relaxation is off (with it on, the constraint is relaxed to '?' / '*' before it could be generalised)
        gen_hi = hi["flags"]["disable_exact_cardinality"] and not hi["flags"]["all_instances_are_compliant_mode"]
        gen_lo = lo["flags"]["disable_exact_cardinality"] and not lo["flags"]["all_instances_are_compliant_mode"]
        if k[4] == "+" and k[5] == "line" and gen_hi:
            continue
        for (r2, c2) in [v for kk, v in f_lo.items() if kk[:5] == k[:5] and not (kk[4] == "+" and kk[5] == "line" and gen_lo)]:
            cls = "STAGE-nonliteral-merge-figures" if k[3] == "NONLITERAL" else None
            yield ("figure (count) of %r differs between the two thresholds" % (k[:5],), fig_differs(ex, count, c2), cls)
            yield ("figure (ratio) of %r differs between the two thresholds" % (k[:5],), fig_differs(ex, ratio, r2), cls)


def judge_c12_zero(ctx, ex):
    """threshold 0: nothing observed in the data is omitted - every observed (direction, property, value kind) is the value
    expression of a constraint or is named in one of its comments."""
    r0 = ctx["runs"][0]
    if r0["schema"] is None:
        yield (r0["parse_problem"], True, None)
        return
    clash = "label-clash" in ctx["structure"]["tags"]
    schema0 = _unique_labels(r0["schema"]) if clash else r0["schema"]
    f = facts(schema0)
    have = {k[:4] for k in f}
    for sh in schema0.shapes:
        for stm in sh.statements:
            for t in stm.targets:
                have.add((sh.label, stm.inverse, stm.pred, _kind_of_target(t)))
    n_labels = {}
    for sh in r0["schema"].shapes:
        n_labels[sh.label] = n_labels.get(sh.label, 0) + 1
    for (c, d, prop, kind, card) in r0["sym"]["ref"]:
        label = R.shape_name(c)[2:-1]
        if clash and n_labels.get(label, 0) > 1:
            label = label + "|" + c
        if (label, d == 1, prop, kind) in have:
            continue
        if kind in ("IRI", "BNode") and any(h[:3] == (label, d == 1, prop) and (h[3] in ("NONLITERAL", "IRI", "BNode") or h[3].startswith("%")) for h in have):
            continue   # the non-literal constraint of that property stands for its plain node kinds
        yield ("at threshold 0 the observed feature %r of %s is neither a constraint nor named in a comment" % ((d, prop, kind), label), True, None)


def judge_c12_one(ctx, ex):
    """threshold 1: only features of all instances remain - every figure still printed (line or comment) is 100 %."""
    r0 = ctx["runs"][0]
    if r0["schema"] is None:
        yield (r0["parse_problem"], True, None)
        return
    for k, (ratio, count) in facts(r0["schema"]).items():
        size = _size_of(ctx, k[0])
        if count is not None:
            cv = fig_value(ex, count)
            cls = "STAGE-nonliteral-merge-figures" if k[3] == "NONLITERAL" else None
            yield ("at threshold 1 the feature %r is still reported although not all instances have it" % (k[:5],), _neg(_equals(cv, size)), cls)


# ------------------------------------------------------------------------- C14

def judge_c14(ctx, ex):
    inv, direct, rev = ctx["runs"]
    for r in ctx["runs"]:
        if r["schema"] is None:
            yield (r["parse_problem"], True, None)
            return
    # instance counts and outgoing constraints untouched (a shape that owes its existence to incoming constraints only may be new)
    by_label_dir = {sh.label: sh for sh in direct["schema"].shapes}
    by_label_inv = {sh.label: sh for sh in inv["schema"].shapes}
    for label, sb in by_label_dir.items():
        if label not in by_label_inv:
            yield ("shape %s disappears when inverse_paths is enabled" % label, True, None)
            continue
        yield ("instance count of %s changes with inverse_paths" % label, fig_differs(ex, by_label_inv[label].n_instances, sb.n_instances), None)
    for label, sa in by_label_inv.items():
        if label not in by_label_dir:
            if not direct["flags"]["remove_empty_shapes"] or any(not stm.inverse for stm in sa.statements):
                yield ("shape %s exists only with inverse_paths although it has outgoing constraints / empty shapes are kept" % label, True, None)
    yield from _same_constraints(ex, _constraint_table(inv["schema"], want_inverse=False), _constraint_table(direct["schema"], want_inverse=False),
                                 "outgoing constraints with inverse_paths vs without")
    # incoming class-membership constraints (instances that are themselves classes) have no counterpart: reverse(G) keeps the instantiation triples, see stage.reverse_triples
    t_inv = {k: v for k, v in _constraint_table(inv["schema"], want_inverse=True).items() if k[1] != RDF_TYPE}
    t_rev = {k: v for k, v in _constraint_table(rev["schema"], want_inverse=False).items() if k[1] != RDF_TYPE and k[2] == ("nonliteral",)}
    t_rev = {(k[0], k[1], k[2]): v for k, v in t_rev.items()}
    yield from _same_constraints(ex, t_inv, t_rev, "incoming constraints vs outgoing constraints of reverse(G)")


def _constraint_table(schema, want_inverse):
    """{(shape, pred, value class): (card, targets, ratio, count, comments-as-facts)} for one direction."""
    out = {}
    for sh in schema.shapes:
        for stm in sh.statements:
            if stm.inverse != want_inverse:
                continue
            for k in statement_keys(stm):
                cf = {}
                for com in stm.comments:
                    if com.get("other") or com.get("annotation"):
                        continue
                    kind = _kind_of_target(com["obj"]) if com["obj"] is not None else "OR"
                    cf[(kind, com["card"])] = (com["ratio"], com["count"])
                out[(sh.label, k[1], k[2])] = (stm.card, tuple(stm.targets), stm.ratio, stm.count, cf)
    return out


def _same_constraints(ex, ta, tb, what):
    for k in set(ta) | set(tb):
        if k not in ta or k not in tb:
            yield ("%s: constraint %r exists on one side only" % (what, k), True, None)
            continue
        (ca, ga, ra, na, fa), (cb, gb, rb, nb, fb) = ta[k], tb[k]
        if ca != cb:
            yield ("%s: cardinality of %r differs (%r vs %r)" % (what, k, ca, cb), True, None)
        if ga != gb:
            yield ("%s: value expression of %r differs (%r vs %r)" % (what, k, ga, gb), True, None)
        yield ("%s: count of %r differs" % (what, k), fig_differs(ex, na, nb), None)
        yield ("%s: ratio of %r differs" % (what, k), fig_differs(ex, ra, rb), None)
        for fk in set(fa) | set(fb):
            if fk not in fa or fk not in fb:
                yield ("%s: comment %r of %r exists on one side only" % (what, fk, k), True, None)
                continue
            yield ("%s: comment count %r of %r differs" % (what, fk, k), fig_differs(ex, fa[fk][1], fb[fk][1]), None)
            yield ("%s: comment ratio %r of %r differs" % (what, fk, k), fig_differs(ex, fa[fk][0], fb[fk][0]), None)


# ------------------------------------------------------------------------- C11

SH = "http://www.w3.org/ns/shacl#"


def shex_tuples(schema, class_of_label):
    out = []
    for sh in schema.shapes:
        for stm in sh.statements:
            if len(stm.targets) != 1:
                continue
            kind, v = stm.targets[0]
            if kind == "datatype":
                restr = ("datatype", v)
            elif kind == "ref":
                restr = ("node", v)
            elif kind == "value":
                restr = ("in", v)
            else:
                restr = ("nodeKind", {"IRI": SH + "IRI", "BNode": SH + "BlankNode", "NONLITERAL": SH + "BlankNodeOrIRI", "LITERAL": SH + "Literal", ".": None}[v])
            card = stm.card
            mn, mx = {"?": (None, 1), "*": (None, None), "+": (1, None)}.get(card, (card, card))
            out.append((sh.label, class_of_label.get(sh.label), stm.inverse, stm.pred, restr, mn, mx))
    return sorted(out, key=repr)


def shacl_tuples(text):
    import rdflib
    g = rdflib.Graph()
    g.parse(data=text, format="turtle")
    S = rdflib.Namespace(SH)
    out = []
    for shape in g.subjects(rdflib.RDF.type, S.NodeShape):
        tcs = [str(x) for x in g.objects(shape, S.targetClass)]
        tc = tcs[0] if len(tcs) == 1 else (None if not tcs else tuple(sorted(tcs)))
        for ps in g.objects(shape, S.property):
            paths = [str(x) for x in g.objects(ps, S.path)]
            invs = [str(x) for b in g.objects(ps, S.property) for x in g.objects(b, S.inversePath)]
            inverse, pred = (False, paths[0]) if len(paths) == 1 and not invs else ((True, invs[0]) if len(invs) == 1 and not paths else (None, tuple(paths + invs)))
            restrs = []
            for o in g.objects(ps, S.dataType):
                restrs.append(("datatype", str(o)))
            for o in g.objects(ps, S.datatype):
                restrs.append(("datatype", str(o)))
            for o in g.objects(ps, S.nodeKind):
                restrs.append(("nodeKind", str(o)))
            for o in g.objects(ps, S.node):
                restrs.append(("node", str(o)))
            for o in g.objects(ps, S["in"]):
                items = [str(x) for x in rdflib.collection.Collection(g, o)]
                restrs.append(("in", items[0] if len(items) == 1 else tuple(items)))
            restr = restrs[0] if len(restrs) == 1 else (("nodeKind", None) if not restrs else ("several", tuple(restrs)))
            mn = [int(x) for x in g.objects(ps, S.minCount)]
            mx = [int(x) for x in g.objects(ps, S.maxCount)]
            out.append((str(shape), tc, inverse, pred, restr, mn[0] if mn else None, mx[0] if mx else None))
    return sorted(out, key=repr)


def c11_differences(schema, shacl_text, classes):
    class_of_label = {R.shape_name(c)[2:-1]: c for c in classes}
    a = shex_tuples(schema, class_of_label)
    try:
        b = shacl_tuples(shacl_text)
    except Exception as e:  # noqa
        return ["SHACL output unreadable: %s" % str(e)[:100]]
    out = []
    for x in a:
        if x not in b:
            out.append("ShExC constraint without SHACL counterpart: %r" % (x,))
    for x in b:
        if x not in a:
            out.append("SHACL property shape without ShExC counterpart: %r" % (x,))
    shex_shapes = {(sh.label, class_of_label.get(sh.label)) for sh in schema.shapes}
    import rdflib
    g = rdflib.Graph()
    g.parse(data=shacl_text, format="turtle")
    S = rdflib.Namespace(SH)
    shacl_shapes = set()
    for shape in g.subjects(rdflib.RDF.type, S.NodeShape):
        tcs = [str(x) for x in g.objects(shape, S.targetClass)]
        shacl_shapes.add((str(shape), tcs[0] if len(tcs) == 1 else None))
    if shex_shapes != shacl_shapes:
        out.append("node shapes differ: ShExC %r vs SHACL %r" % (sorted(shex_shapes, key=repr), sorted(shacl_shapes, key=repr)))
    return out


def _c11_class(problem):
    if "BlankNodeOrIRI" in problem or "NONLITERAL" in problem:
        return "STAGE-shacl-nonliteral"
    if "BlankNode" in problem:
        return "STAGE-shacl-bnode-kind"
    if "('in'," in problem:
        return "STAGE-shacl-type-cardinality"
    return None


def judge_c11(ctx, ex):
    r0 = ctx["runs"][0]
    if r0["schema"] is None:
        yield (r0["parse_problem"], True, None)
        return
    for p in c11_differences(r0["schema"], r0["shacl"], _shape_classes(ctx)):
        yield (p, True, _c11_class(p))


# ------------------------------------------------------------------------- C13

def _views_equal(va, vb, what, map_label=lambda x: x):
    la, lb = {map_label(k): v for k, v in va.items()}, {map_label(k): v for k, v in vb.items()}
    if set(la) != set(lb):
        yield ("%s changes the set of shapes: %r vs %r" % (what, sorted(la), sorted(lb)), True, None)
        return
    for label in la:
        if la[label] != lb[label]:
            yield ("%s changes the constraints/cardinalities of %s: %r vs %r" % (what, label, la[label], lb[label]), True, None)


def judge_c13(ctx, ex):
    a, b = ctx["runs"]
    opt = ctx["scenario"][5:]
    for r in ctx["runs"]:
        if r["schema"] is None:
            yield (r["parse_problem"], True, None)
            return
    va, vb = statements_view(a["schema"]), statements_view(b["schema"])
    if opt in ("disable_comments", "namespaces_dict") or opt.startswith("decimals=") or opt.startswith("report="):
        yield from _views_equal(va, vb, "presentation option %s" % opt)
        if opt.startswith("decimals="):
            yield from _decimals_check(ctx, ex, b, int(opt.split("=")[1]))
        return
    if opt == "shapes_namespace":
        def strip(label):
            return label.rsplit("/", 1)[-1]
        cls = "STAGE-shapes-namespace-not-propagated"
        for item in _views_equal(_strip_refs(va), _strip_refs(vb), "shapes_namespace", strip):
            yield (item[0], item[1], cls)
        return
    if set(va) != set(vb):
        yield ("option %s changes the set of shapes" % opt, True, None)
        return
    fb = facts(b["schema"])
    for label in va:
        ka, kb = va[label], vb[label]
        if set(ka) != set(kb):
            yield ("option %s changes the constraint keys of %s: %r vs %r" % (opt, label, sorted(ka, key=repr), sorted(kb, key=repr)), True, None)
            continue
        for k in ka:
            for (ca, ga), (cb, gb) in zip(ka[k], kb[k]):
                yield from _pair_rule(ctx, ex, opt, label, k, ca, ga, cb, gb, a, b)


def _strip_refs(view):
    out = {}
    for label, d in view.items():
        out[label] = {k: [(c, tuple((t[0], t[1].rsplit("/", 1)[-1]) if t[0] == "ref" else t for t in g)) for c, g in v] for k, v in d.items()}
    return out


def _find_line(schema, label, key):
    for sh in schema.shapes:
        if sh.label == label:
            for stm in sh.statements:
                if key in statement_keys(stm):
                    return stm
    return None


def _pair_rule(ctx, ex, opt, label, k, ca, ga, cb, gb, a, b):
    where = "%s of %s" % (k, label)
    if opt == "all_instances_are_compliant_mode":      # a: on, b: off
        if ga != gb:
            yield ("all-compliant mode changes the value expression of %s" % where, True, None)
        if ca != cb:
            if ca not in ("?", "*"):
                yield ("all-compliant mode rewrites %s to %r" % (where, ca), True, None)
            if ca == "?" and not (a["flags"]["allow_opt_cardinality"] and cb == 1):
                yield ("all-compliant mode uses '?' on %s whose cardinality was %r" % (where, cb), True, None)
            stm = _find_line(b["schema"], label, k)
            size = _size_of(ctx, label)
            if stm is not None and stm.count is not None:
                cv = fig_value(ex, stm.count)
                yield ("all-compliant mode relaxes %s although all instances have it" % where, _equals(cv, size), None)
        else:
            stm = _find_line(b["schema"], label, k)
            size = _size_of(ctx, label)
            if stm is not None and stm.count is not None and stm.card not in ("?", "*"):
                cv = fig_value(ex, stm.count)
                yield ("all-compliant mode leaves %s untouched although not all instances have it" % where, _neg(_equals(cv, size)),
                       "STAGE-nonliteral-merge-figures" if any(t == ("kind", "NONLITERAL") for t in ga) else None)
    elif opt == "allow_opt_cardinality":                # a: allowed, b: not
        if ga != gb:
            yield ("allow_opt_cardinality changes the value expression of %s" % where, True, None)
        if ca != cb and not (ca == "?" and cb == "*"):
            yield ("allow_opt_cardinality=False changes %s from %r to %r" % (where, ca, cb), True, None)
        if cb == "?":
            yield ("allow_opt_cardinality=False still prints '?' on %s" % where, True, None)
    elif opt == "disable_exact_cardinality":            # a: disabled (True), b: exact
        if ga != gb:
            yield ("disable_exact_cardinality changes the value expression of %s" % where, True, None)
        if ca != cb and not (ca == "+" and isinstance(cb, int) and cb > 1):
            yield ("disable_exact_cardinality changes %s from %r to %r" % (where, cb, ca), True, None)
        if isinstance(ca, int) and ca > 1:
            yield ("disable_exact_cardinality leaves the exact cardinality {%d} on %s" % (ca, where), True, None)
    elif opt in ("disable_or_statements", "allow_redundant_or"):
        if ca != cb:
            yield ("%s changes the cardinality of %s from %r to %r" % (opt, where, ca, cb), True, None)
        if ga != gb:
            stm = _find_line(a["schema"], label, k)
            alts = set(ga)
            if stm is not None:
                alts |= {com["obj"] for com in stm.comments if com.get("obj")}
            if not (len(gb) > 1 and set(gb) <= alts and k[2] == ("nonliteral",)):
                yield ("%s turns %s into %r which is not a disjunction over its alternatives %r" % (opt, where, gb, sorted(alts, key=repr)), True, None)
    else:
        if (ca, ga) != (cb, gb):
            yield ("option %s changes %s" % (opt, where), True, None)


def _size_of(ctx, label):
    for c, s in ctx["runs"][0]["sym"]["counts"].items():
        if R.shape_name(c)[2:-1] == label:
            return s
    raise HarnessError("no class for label %s" % label)


def _equals(v, size):
    if isinstance(v, (int, float)) and isinstance(size, int):
        return v == size
    return as_expr(v) == as_expr(size)


def _decimals_verdict(text, exact, n, as_computed=None):
    """'' ok | 'format' (not n decimal places) | 'trunc' (decimals=0: floor instead of round) | 'value' (anything else).
    as_computed: the percentage as the code computes it in doubles, (count / size) * 100 - its floor can be one below the floor of the exact value
    (114/200 -> 56.99999999999999 -> 56): the same recorded truncation, seen through double arithmetic."""
    import math
    if _decimals(text) != n:
        return "format"
    if abs(float(text) - exact) <= 0.5 * 10 ** (-n) + 1e-9:
        return ""
    if n == 0 and (float(text) == math.floor(exact + 1e-9) or (as_computed is not None and float(text) == math.floor(as_computed))):
        return "trunc"
    return "value"


def _decimals_check(ctx, ex, run, n):
    for sh in run["schema"].shapes:
        size = _size_of(ctx, sh.label)
        items = []
        for stm in sh.statements:
            if stm.ratio is not None and stm.count is not None:
                items.append((stm.ratio, stm.count, stm.raw.strip()[:50]))
            for com in stm.comments:
                if com.get("ratio") is not None and com.get("count") is not None:
                    items.append((com["ratio"], com["count"], com["raw"][:50]))
        for ratio, count, where in items:
            msgs = {"format": ("decimals=%d: ratio on '%s' of %s is not printed with %d decimal places" % (n, where, sh.label, n), None),
                    "value": ("decimals=%d: ratio on '%s' of %s is not the exact ratio rounded to %d places" % (n, where, sh.label, n), None),
                    "trunc": ("decimals=0: ratio on '%s' of %s is truncated instead of rounded" % (where, sh.label), "STAGE-decimals0-truncates")}
            if ratio.token is None:
                cnum, snum = fig_value(ex, count), size
                if isinstance(cnum, (int, float)) and isinstance(snum, int) and snum:
                    v = _decimals_verdict(ratio.text, 100.0 * cnum / snum, n, (float(cnum) / float(snum)) * 100)
                    if v:
                        yield (msgs[v][0], True, msgs[v][1])
                continue
            entry = ex.tokens[ratio.token]
            rv, cv = entry[0], fig_value(ex, count)
            rf, cf, sf = SymFloat.lift(rv), SymFloat.lift(cv), SymFloat.lift(size)
            deps, p1, p2 = rf._merge(cf)
            tmp = SymFloat(deps, lambda vals: 0)
            deps2, q1, q2 = tmp._merge(sf)
            for verdict in ("format", "value", "trunc"):
                def pred(vals, rf=rf, cf=cf, sf=sf, p1=p1, p2=p2, q1=q1, q2=q2, entry=entry, verdict=verdict):
                    v12 = q1(vals)
                    r = rf.fn(p1(v12))
                    c = cf.fn(p2(v12))
                    s_ = sf.fn(q2(vals))
                    if s_ == 0:
                        return False
                    text = format(r, entry[1]) if entry[2] == "format" else str(r)
                    return _decimals_verdict(text, 100.0 * c / s_, n, (float(c) / float(s_)) * 100) == verdict
                yield (msgs[verdict][0], rf._table(deps2, pred), msgs[verdict][1])


# ------------------------------------------------------------------------- C03 (reference validator)

def _matches_value(node_term, target, ctx, visiting):
    kind, v = target
    if kind == "datatype":
        return node_term[0] == "lit" and node_term[1] == v
    if kind == "value":
        return node_term[0] == "iri" and node_term[1] == v
    if kind == "kind":
        if v == "IRI":
            return node_term[0] == "iri"
        if v == "BNode":
            return node_term[0] == "bnode"
        if v == "NONLITERAL":
            return node_term[0] in ("iri", "bnode")
        if v == "LITERAL":
            return node_term[0] == "lit"
        return True
    if kind == "ref":
        if node_term[0] == "lit":
            return False
        return conforms(node_term[1], v, ctx, visiting)
    return False


def conforms(node, shape_label, ctx, visiting):
    key = (node, shape_label)
    if key in visiting:
        return True
    if key in ctx["memo"]:
        return ctx["memo"][key]
    shape = ctx["shapes"].get(shape_label)
    if shape is None:
        return False
    visiting = visiting | {key}
    ok = True
    groups = {}
    for stm in shape.statements:
        groups.setdefault((stm.inverse, stm.pred), []).append(stm)
    for (inverse, pred), stms in groups.items():
        values = ctx["in"].get((node, pred), []) if inverse else ctx["out"].get((node, pred), [])
        if not _partition(values, stms, ctx, visiting):
            ok = False
            ctx["why"].append("node %s vs %s: values %r of %s%s cannot be distributed over %r" % (
                node, shape_label, values, "^" if inverse else "", pred, [(s.card, s.targets) for s in stms]))
            break
    ctx["memo"][key] = ok
    return ok


def _bounds(card):
    return {"?": (0, 1), "*": (0, 10 ** 9), "+": (1, 10 ** 9)}.get(card, (card, card))


def _partition(values, stms, ctx, visiting):
    n = len(stms)
    match = [[any(_matches_value(v, t, ctx, visiting) for t in s.targets) for s in stms] for v in values]

    def rec(i, counts):
        if i == len(values):
            return all(_bounds(s.card)[0] <= c <= _bounds(s.card)[1] for s, c in zip(stms, counts))
        for j in range(n):
            if match[i][j] and counts[j] < _bounds(stms[j].card)[1]:
                counts[j] += 1
                if rec(i + 1, counts):
                    return True
                counts[j] -= 1
        return False
    return rec(0, [0] * n)


def validate_graph(schema, triples, inverse, instances=None):
    """-> list of problems: every instance must conform to the shape of each of its classes."""
    instances, _ = R.refprof(triples, inverse=False, instances=instances)
    out_idx, in_idx = {}, {}
    for s, p, o in triples:
        out_idx.setdefault((s[1], p), []).append(o)
        if o[0] != "lit":
            in_idx.setdefault((o[1], p), []).append(s)
    ctx = dict(shapes={sh.label: sh for sh in schema.shapes}, out=out_idx, memo={}, why=[])
    ctx["in"] = in_idx
    problems = []
    for node, classes in instances.items():
        for c in classes:
            label = R.shape_name(c)[2:-1]
            if label not in ctx["shapes"]:
                continue
            ctx["why"] = []
            if not conforms(node, label, ctx, frozenset()):
                problems.append("instance %s does not conform to %s (%s)" % (node, label, "; ".join(ctx["why"][:1])))
    return problems


def judge_c03(ctx, ex):
    r0 = ctx["runs"][0]
    if r0["schema"] is None:
        yield (r0["parse_problem"], True, None)
        return
    st = ctx["structure"]
    triples = R.generate_triples(st["rows"], None, representative=True)
    for p in validate_graph(r0["schema"], triples, r0["flags"]["inverse_paths"]):
        yield (p, True, _c03_class(st, r0["flags"]))
    # '?' only when no instance has more than one matching value
    for sh in r0["schema"].shapes:
        for stm in sh.statements:
            if stm.card == "?":
                pass  # covered by conformance: an instance with two values would fail '?'


def _c03_class(st, flags):
    if not flags["keep_less_specific"]:
        return "STAGE-keep-less-specific-off"
    if "ref-tie" in st["tags"] or "mixed-typed-values" in st["tags"]:
        return "STAGE-ref-chosen-on-tie"
    if "iri+bnode" in st["tags"]:
        return "STAGE-nonliteral-merge-figures"
    return None


# ------------------------------------------------------------------------- C09 (statement order)

def _evidence(schema):
    """{(shape, inverse, pred, kind, card): (ratio, count)} regardless of whether the fact sits on a line or in a comment."""
    out = {}
    for k, v in facts(schema).items():
        out.setdefault(k[:5], []).append(v)
    return out


def _unique_labels(schema):
    """Shapes that share a label (classes with the same local name - recorded finding of C05) are told apart by the class value of their typing constraint,
    so that a judge keyed by label compares like with like."""
    labels = [sh.label for sh in schema.shapes]
    if len(set(labels)) == len(labels):
        return schema
    import copy
    out = copy.copy(schema)
    out.shapes = []
    for sh in schema.shapes:
        sh2 = copy.copy(sh)
        if labels.count(sh.label) > 1:
            vals = sorted(v for stm in sh.statements if stm.pred == RDF_TYPE and not stm.inverse for k, v in stm.targets if k == "value")
            sh2.label = sh.label + "|" + (vals[0] if vals else "?")
        out.shapes.append(sh2)
    return out


def judge_c09(ctx, ex):
    a, b = ctx["runs"]
    for r in ctx["runs"]:
        if r["schema"] is None:
            yield (r["parse_problem"], True, None)
            return
    if "label-clash" in ctx["structure"]["tags"]:
        a, b = dict(a, schema=_unique_labels(a["schema"])), dict(b, schema=_unique_labels(b["schema"]))
    la, lb = {sh.label: sh for sh in a["schema"].shapes}, {sh.label: sh for sh in b["schema"].shapes}
    if set(la) != set(lb):
        yield ("statement order changes the set of shapes: %r vs %r" % (sorted(la), sorted(lb)), True, None)
        return
    for label in la:
        yield ("statement order changes the instance count of %s" % label, fig_differs(ex, la[label].n_instances, lb[label].n_instances), None)
        if la[label].stem != lb[label].stem:
            yield ("statement order changes the IRI stem of %s: %r vs %r" % (label, la[label].stem, lb[label].stem), True, None)
    va, vb = statements_view(a["schema"]), statements_view(b["schema"])
    tie_free = not any(t in ctx["structure"]["tags"] for t in ("ref-tie", "mixed-typed-values", "iri+bnode"))
    for label in va:
        if set(va[label]) != set(vb[label]):
            yield ("statement order changes the constraint keys of %s: %r vs %r" % (label, sorted(va[label], key=repr), sorted(vb[label], key=repr)), True, None)
        elif tie_free and {k: sorted(v, key=repr) for k, v in va[label].items()} != {k: sorted(v, key=repr) for k, v in vb[label].items()}:
            yield ("statement order changes the chosen constraints/cardinalities of %s although no kinds are tied: %r vs %r" % (label, va[label], vb[label]), True,
                   None if a["flags"]["keep_less_specific"] else "STAGE-order-dependent-cardinality-tie")
    ea, eb = _evidence(a["schema"]), _evidence(b["schema"])
    lossy = not tie_free or not a["flags"]["discard_useless_constraints_with_positive_closure"] or not a["flags"]["keep_less_specific"]
    for k in set(ea) | set(eb):
        if k not in ea or k not in eb:
            if not lossy:
                yield ("statement order changes the reported evidence: fact %r appears in one order only" % (k,), True, None)
            continue
        ra, ca = ea[k][0]
        rb, cb = eb[k][0]
        cls = "STAGE-nonliteral-merge-figures" if k[3] == "NONLITERAL" else None
        if k[4] == "+" and a["flags"]["disable_exact_cardinality"]:
            continue
        yield ("statement order changes the count reported for %r" % (k,), fig_differs(ex, ca, cb), cls)
        yield ("statement order changes the ratio reported for %r" % (k,), fig_differs(ex, ra, rb), cls)


# ------------------------------------------------------------------------- C18 (call history on one Shaper)

def judge_c18(ctx, ex):
    runs = ctx["runs"]
    for r in runs:
        if r["schema"] is None:
            yield (r["parse_problem"], True, None)
            return
    if ctx["scenario"].startswith("history"):
        got, want, what = runs[1], runs[2], "second call on the same Shaper vs a fresh Shaper with the second call's arguments"
    else:
        got, want, what = runs[1], runs[0], "the same call repeated on one Shaper"
    yield from _views_equal(statements_view(got["schema"]), statements_view(want["schema"]), what)
    fg, fw = facts(got["schema"]), facts(want["schema"])
    if set(fg) != set(fw):
        yield ("%s: reported facts differ: %r" % (what, sorted(set(fg) ^ set(fw), key=repr)[:3]), True, None)
    for k in set(fg) & set(fw):
        yield ("%s: count of %r differs" % (what, k[:5]), fig_differs(ex, fg[k][1], fw[k][1]), None)
        yield ("%s: ratio of %r differs" % (what, k[:5]), fig_differs(ex, fg[k][0], fw[k][0]), None)
    if len(got["text"].split("\n")) != len(want["text"].split("\n")):
        yield ("%s: number of output lines differs (%d vs %d)" % (what, len(got["text"].split("\n")), len(want["text"].split("\n"))), True, None)


# ------------------------------------------------------------------------- C17 / C16: options acting outside the stage (end-to-end, concrete)

def _lcp(strings):
    import os
    return os.path.commonprefix(list(strings))


def _ref_stem(iris):
    s = _lcp(iris)
    idx = max(s.rfind(":"), s.rfind("/"), s.rfind("#"))
    if idx == -1:
        return None
    cand = s[:idx + 1]
    if len(cand) < 3 or cand in ("http://", "https://", "http:/", "https:/", "http:", "https:"):
        return None
    return cand


def concrete_c17(c):
    """run A: base; run B: the same with detect_minimal_iri / examples_mode.  Constraints identical; stems and examples come from the data."""
    import re
    problems = []
    a, b = c["schemas"]
    for what, bad, cls in _views_equal(statements_view(a), statements_view(b), "detect_minimal_iri / examples_mode"):
        problems.append(what)
    extra = c["reals"][1]["run"].get("real_extra", {})
    cref = _cref(c, 1)
    inst_of = {}
    for node, classes in cref.instances.items():
        for cl in classes:
            inst_of.setdefault(R.shape_name(cl)[2:-1], []).append(node)
    values = {}
    for s_, p_, o_ in c["triples"]:
        values.setdefault((s_[1], p_, False), []).append(o_)
        if o_[0] != "lit":
            values.setdefault((o_[1], p_, True), []).append(s_)
    pmap = b.prefix_map()
    for sh in b.shapes:
        nodes = inst_of.get(sh.label, [])
        if extra.get("detect_minimal_iri"):
            want = _ref_stem([n for n in nodes]) if nodes and not any(n.startswith("_:") for n in nodes) else (_ref_stem(nodes) if nodes else None)
            if sh.stem != want:
                problems.append("IRI stem of %s is %r, the instances %r give %r" % (sh.label, sh.stem, nodes[:4], want))
        elif sh.stem is not None:
            problems.append("stem printed although detect_minimal_iri is off")
        mode = extra.get("examples_mode")
        if mode in ("all", "shape"):
            if sh.example is None:
                problems.append("no shape example for %s" % sh.label)
            else:
                ex_iri = _example_value(sh.example, pmap)
                if ex_iri not in nodes:
                    problems.append("example %r of %s is not one of its instances %r" % (sh.example, sh.label, nodes[:4]))
        if mode in ("all", "cons"):
            for stm in sh.statements:
                anns = [x["raw"] for x in stm.comments if x.get("annotation")]
                if stm.pred == RDF_TYPE:
                    continue
                if len(anns) != 1:
                    problems.append("%d example annotations on %s of %s" % (len(anns), stm.pred, sh.label))
                    continue
                m = re.match(r"^// rdfs:comment (.*) ;$", anns[0])
                if not m:
                    problems.append("unreadable example annotation %r" % anns[0])
                    continue
                val = _example_value(m.group(1), pmap)
                actual = [v for n in nodes for v in values.get((n, stm.pred, stm.inverse), [])]
                if not any((v[0] == "lit" and val == v[2]) or (v[0] != "lit" and val == v[1]) for v in actual):
                    problems.append("example %r of %s%s in %s is not a value of that property on an instance" % (m.group(1), "^" if stm.inverse else "", stm.pred, sh.label))
    shacl = c["reals"][1].get("shacl")
    if shacl is not None and not extra.get("detect_minimal_iri"):
        # examples only: the SHACL rendering states exactly what it states without the option (no sh:pattern, same graph)
        import rdflib
        import rdflib.compare
        g = rdflib.Graph()
        g.parse(data=shacl, format="turtle")
        S = rdflib.Namespace(SH)
        if list(g.triples((None, S.pattern, None))):
            problems.append("sh:pattern %r printed although detect_minimal_iri is off" % sorted(str(o) for o in g.objects(None, S.pattern))[:2])
        a_shacl = c["reals"][0].get("shacl")
        if a_shacl is not None and not problems:
            ga = rdflib.Graph()
            ga.parse(data=a_shacl, format="turtle")
            if not rdflib.compare.isomorphic(ga, g):
                problems.append("examples_mode changes the SHACL graph")
    if shacl is not None and extra.get("detect_minimal_iri"):
        # SHACL rendering of the same run: sh:pattern "^<stem>" exactly for the shapes with a stem, and the same constraints as the ShExC text
        import rdflib
        import rdflib.compare
        classes = sorted({cl for cls_ in cref.instances.values() for cl in cls_})
        for p_ in c11_differences(b, shacl, classes):
            if _c11_class(p_) is None:
                problems.append("SHACL with detect_minimal_iri: " + p_)
        g = rdflib.Graph()
        g.parse(data=shacl, format="turtle")
        S = rdflib.Namespace(SH)
        for shape in g.subjects(rdflib.RDF.type, S.NodeShape):
            nodes = inst_of.get(str(shape), [])
            want = _ref_stem(nodes) if nodes else None
            pats = sorted(str(x) for x in g.objects(shape, S.pattern))
            if pats != ([] if want is None else ["^" + want]):
                problems.append("sh:pattern of %s is %r, the instances %r give %r" % (shape, pats, nodes[:4], want))
        a_shacl = c["reals"][0].get("shacl")
        if a_shacl is not None:
            ga = rdflib.Graph()
            ga.parse(data=a_shacl, format="turtle")
            if list(ga.triples((None, S.pattern, None))):
                problems.append("sh:pattern printed although detect_minimal_iri is off")
            for t_ in list(g.triples((None, S.pattern, None))):
                g.remove(t_)
            if not rdflib.compare.isomorphic(ga, g):
                problems.append("detect_minimal_iri changes the SHACL graph beyond sh:pattern")
    return problems


def _example_value(text, pmap):
    text = text.strip()
    if text.startswith("<") and text.endswith(">"):
        return text[1:-1]
    if text.startswith('"') and text.endswith('"'):
        return text[1:-1]
    if ":" in text:
        p, l = text.split(":", 1)
        if p in pmap:
            return pmap[p] + l
    return text


def concrete_c16_rdf(c):
    """run A: base; run B: namespaces_to_ignore = [the rdf: namespace].  Class membership is still read from the full graph: the same shapes with the same
    instance counts; the constraints are those of A minus the ones whose predicate is a direct child of the rdf: namespace (here: rdf:type)."""
    RDFNS = "http://www.w3.org/1999/02/22-rdf-syntax-ns#"
    a, b = c["schemas"]
    problems = []
    va, vb = statements_view(a), statements_view(b)
    want = {label: {k: v for k, v in d.items() if not (k[1].startswith(RDFNS) and "/" not in k[1][len(RDFNS):] and "#" not in k[1][len(RDFNS):])} for label, d in va.items()}
    for what, bad, cls in _views_equal(want, vb, "namespaces_to_ignore=[rdf:] (beyond removing the rdf: constraints)"):
        problems.append(what)
    na = {sh.label: sh.n_instances.text if sh.n_instances is not None else None for sh in a.shapes}
    nb = {sh.label: sh.n_instances.text if sh.n_instances is not None else None for sh in b.shapes}
    if na != nb and not problems:
        problems.append("namespaces_to_ignore=[rdf:] changes the instance counts: %r vs %r" % (na, nb))
    fa, fb = facts(a), facts(b)
    for k in set(fa) & set(fb):
        if (fa[k][0].text if fa[k][0] is not None else None, fa[k][1].text if fa[k][1] is not None else None) != \
                (fb[k][0].text if fb[k][0] is not None else None, fb[k][1].text if fb[k][1] is not None else None):
            problems.append("namespaces_to_ignore=[rdf:] changes the figures of %r" % (k[:5],))
            break
    return problems


def concrete_c08(c):
    """run 0: the graph as raw N-Triples; runs 1..: the same graph through the other delivery channels.  Each channel is compared with run 0 the way C09 compares two
    statement orders (rdflib hands the triples over in its own order): same shapes, instance counts, constraint keys and evidence; same chosen constraints when nothing is tied."""
    from .delivery import RDFLIB_REPARSED, splits_blank_nodes
    problems = []
    FINDING = "DELIVERY-rdflib-reparse-bnode-instances"
    bnode_instances = any(str(n).startswith("_:") for n in _cref(c, 0).instances)
    split_bn = splits_blank_nodes(c["triples"])
    for i in range(1, len(c["reals"])):
        ch = c["reals"][i]["run"]["real_delivery"]
        if split_bn and ch.endswith(("/files", "/zip", "/zips", "/zipdir")) and ch.startswith(RDFLIB_REPARSED + ("json-ld/",)):
            continue          # blank-node labels are document-scoped for rdflib: the pieces are not the same graph
        sub = dict(c, reals=[c["reals"][0], c["reals"][i]], schemas=[c["schemas"][0], c["schemas"][i]])
        ps = _run_symbolic_judge_concretely(judge_c09, sub)
        if ps and ch.startswith(RDFLIB_REPARSED) and bnode_instances and FINDING in c["active"]:
            if c.get("known_hits") is not None:
                c["known_hits"][FINDING] = c["known_hits"].get(FINDING, 0) + 1
            continue
        problems += ["delivery channel %s vs raw N-Triples: %s" % (ch, p.replace("statement order changes", "changes")) for p in ps[:2]]
    return problems


def concrete_same_output(c):
    """run A vs run B must state the same shapes, constraints and figures (an option that must change nothing on this input)."""
    return _run_symbolic_judge_concretely(_judge_identical, c)


def _judge_identical(ctx, ex):
    a, b = ctx["runs"]
    yield from _views_equal(statements_view(a["schema"]), statements_view(b["schema"]), "the option")
    fa, fb = facts(a["schema"]), facts(b["schema"])
    if set(fa) != set(fb):
        yield ("the option changes the reported facts: %r" % (sorted(set(fa) ^ set(fb), key=repr)[:3],), True, None)
    for k in set(fa) & set(fb):
        yield ("the option changes the count of %r" % (k[:5],), fig_differs(ex, fa[k][1], fb[k][1]), None)
        yield ("the option changes the ratio of %r" % (k[:5],), fig_differs(ex, fa[k][0], fb[k][0]), None)
    for sa, sb in zip(a["schema"].shapes, b["schema"].shapes):
        yield ("the option changes the instance count of %s" % sa.label, fig_differs(ex, sa.n_instances, sb.n_instances), None)


# ------------------------------------------------------------------------- registries

JUDGES = {
    "C01": [judge_c01], "C02": [judge_c02], "C04": [], "C05": [judge_c05], "C12": [judge_c12], "C12z": [judge_c12_zero], "C12o": [judge_c12_one],
    "C14": [judge_c14], "C11": [judge_c11], "C13": [judge_c13], "C03": [judge_c03], "C18": [judge_c18], "C09": [judge_c09], "C17e": [], "SAME": [], "C16rdf": [], "C08e": [],
}


def _cref(c, i=0):
    _T = __import__("harness.stage", fromlist=["x"])
    _g = c["reals"][i]["run"]["graph"]
    return ConcreteRef(_T.reverse_triples(c["triples"]) if _g == "R" else (_T.drop_ignored(c["triples"]) if _g == "D" else c["triples"]),
                       c["reals"][i]["run"]["flags"]["inverse_paths"], c.get("instances"), [R.EX + x for x in (c["cfg"].get("targets") or [])])


class _ConcreteEx:
    """Stand-in for the explorer when the symbolic judges are reused on concrete outputs (no tokens)."""
    tokens = []


def _run_symbolic_judge_concretely(judge, c):
    """The relational judges only compare parsed outputs; on concrete texts every `bad` is a python bool."""
    runs = []
    for x, sch in zip(c["reals"], c["schemas"]):
        cref = _cref(c, len(runs))
        r = dict(x["run"])
        r.update(schema=sch, parse_problem=None, text=x["text"], shacl=x["shacl"], t=x["thr"])
        r["sym"] = dict(ref=cref.ref, nonlit=cref.nonlit, both_kinds=cref.both, counts=cref.sizes)
        runs.append(r)
    ctx = dict(runs=runs, structure=dict(tags=c["tags"], rows=None), scenario=c["scenario"], flags=c["flags"], cfg=c["cfg"])
    out = []
    for what, bad, cls in judge(ctx, _ConcreteEx()):
        if bad is True or (bad is not False and not isinstance(bad, bool) and z3.is_true(z3.simplify(bad))):
            if cls is not None and cls in c["active"]:
                continue
            out.append(what)
    return out


def _conc_c03(c):
    st_tags = c["tags"]
    flags = c["flags"]
    cls = _c03_class(dict(tags=st_tags), flags)
    if cls is not None and cls in c["active"]:
        return []
    return validate_graph(c["schemas"][0], c["triples"], flags["inverse_paths"])


CONCRETE = {
    "C01": lambda c: concrete_c01(_cref(c), c["schemas"][0], c["reals"][0]["run"]["flags"], c["tags"] + (["iri+bnode-known"] if "STAGE-nonliteral-merge-figures" in c["active"] else [])),
    "C02": lambda c: concrete_c02(_cref(c), c["schemas"][0], c["reals"][0]["thr"],
                                  (c["tags"] if "STAGE-nonliteral-filter-before-merge" in c["active"] else [t for t in c["tags"] if t != "iri+bnode"]) +
                                  (["known-ref-removed"] if "STAGE-ref-to-removed-shape-drops-constraint" in c["active"] else []),
                                  c["reals"][0]["run"]["flags"]["remove_empty_shapes"]),
    "C04": lambda c: [],
    "C05": lambda c: [p for x, sch in zip(c["reals"], c["schemas"]) for p in shexc.check_closed(sch) + (shacl_problems(x["shacl"]) if x["shacl"] is not None else [])
                      if not (p.startswith("shape label") and "label-clash" in c["tags"] and "STAGE-same-local-name-same-label" in c["active"])],
    "C12": lambda c: _run_symbolic_judge_concretely(judge_c12, c),
    "C12z": lambda c: _run_symbolic_judge_concretely(judge_c12_zero, c),
    "C12o": lambda c: _run_symbolic_judge_concretely(judge_c12_one, c),
    "C14": lambda c: _run_symbolic_judge_concretely(judge_c14, c),
    "C11": lambda c: _run_symbolic_judge_concretely(judge_c11, c),
    "C13": lambda c: _run_symbolic_judge_concretely(judge_c13, c),
    "C03": _conc_c03,
    "C18": lambda c: _run_symbolic_judge_concretely(judge_c18, c),
    "C09": lambda c: _run_symbolic_judge_concretely(judge_c09, c),
    "C17e": concrete_c17,
    "SAME": concrete_same_output,
    "C16rdf": concrete_c16_rdf,
    "C08e": concrete_c08,
}
