"""Property oracles over one path of H-STAGE (symbolic) and over one concrete end-to-end run.

Symbolic judges yield (what, bad, cls): `bad` is a z3 Bool / python bool that is satisfiable under the path condition iff
the property can be violated on this path; `cls` optionally names a recorded defect class (known_findings.json).
Concrete judges return a list of problem strings for a real output on a concrete graph; they share no code with sheXer.
"""
import z3

from symx import HarnessError, SymFloat, SymInt
from . import rows as R
from . import shexc
from .stage import (TOL, as_expr, ge_threshold_expr, over_100_expr, ratio_ok_expr, shape_of, statement_keys, target_key)

RDF_TYPE = R.RDF_TYPE


def fig_value(ex, fig):
    if fig is None:
        return None
    if fig.token is not None:
        return ex.tokens[fig.token][0]
    try:
        return int(fig.text)
    except ValueError:
        return float(fig.text)


def _is_lit_kind(kind):
    return kind not in ("IRI", "BNode") and not kind.startswith("%")


def candidate_keys(sym, c):
    """{key: count} for every (direction, predicate, value class) observed in the rows of class c."""
    out = {}
    for (cc, d, prop, kind, card), cnt in sym["ref"].items():
        if cc != c:
            continue
        if prop == RDF_TYPE:
            out[(d == 1, prop, ("value", kind))] = cnt
        elif _is_lit_kind(kind) and card == "+":
            out[(d == 1, prop, ("datatype", kind))] = cnt
    for (cc, d, prop, card), cnt in sym["nonlit"].items():
        if cc == c and card == "+":
            out[(d == 1, prop, ("nonliteral",))] = cnt
    return out


def _neg(e):
    return (not e) if isinstance(e, bool) else z3.Not(e)


# ------------------------------------------------------------------------- C05 (closure part) / shared parse

def parse_or_problem(text):
    try:
        return shexc.parse(text), None
    except shexc.ShExSyntaxError as e:
        return None, "ShExC output does not parse: %s" % e


def judge_c05(ctx, ex):
    schema, problem = ctx["schema"], ctx["parse_problem"]
    if problem:
        yield (problem, True, None)
        return
    for p in shexc.check_closed(schema):
        yield (p, True, None)
    if ctx.get("shacl") is not None:
        for p in shacl_problems(ctx["shacl"]):
            yield (p, True, None)


def shacl_problems(text):
    import rdflib
    SH = rdflib.Namespace("http://www.w3.org/ns/shacl#")
    g = rdflib.Graph()
    try:
        g.parse(data=text, format="turtle")
    except Exception as e:  # noqa
        return ["SHACL output does not parse as Turtle: %s" % str(e)[:100]]
    out = []
    shapes = set(g.subjects(rdflib.RDF.type, SH.NodeShape))
    for o in g.objects(None, SH.node):
        if o not in shapes:
            out.append("sh:node %s is not a declared sh:NodeShape" % o)
    for ps in g.subjects(rdflib.RDF.type, SH.PropertyShape):
        paths = list(g.objects(ps, SH.path))
        inv = [x for b in g.objects(ps, SH.property) for x in g.objects(b, SH.inversePath)]
        if len(paths) + len(inv) != 1:
            out.append("property shape with %d sh:path and %d inverse paths" % (len(paths), len(inv)))
    return out


# ------------------------------------------------------------------------- C02

def judge_c02(ctx, ex):
    schema, sym, t = ctx["schema"], ctx["sym"], ctx["t"]
    if schema is None:
        yield (ctx["parse_problem"], True, None)
        return
    tagged = "iri+bnode" in ctx["structure"]["tags"]
    expected_labels = set()
    for c, size in sym["counts"].items():
        shapes = shape_of(schema, c)
        expected_labels.add(R.shape_name(c)[2:-1])
        if len(shapes) != 1:
            yield ("%d shapes for class %s" % (len(shapes), c), True, None)
            continue
        sh = shapes[0]
        present = {}
        for stm in sh.statements:
            for k in statement_keys(stm):
                present[k] = present.get(k, 0) + 1
        for k, n in present.items():
            if n > 1:
                yield ("two constraints for the key %r in %s" % (k, sh.label), True, None)
        cands = candidate_keys(sym, c)
        for k, cnt in cands.items():
            oracle = ge_threshold_expr(cnt, size, t)
            cls = "STAGE-nonliteral-filter-before-merge" if (tagged and k[2] == ("nonliteral",)) else None
            if k in present:
                yield ("constraint %r present in %s although its frequency is below the threshold" % (k, sh.label), _neg(oracle), cls)
            else:
                yield ("constraint %r missing from %s although its frequency reaches the threshold" % (k, sh.label), oracle, cls)
        for k in present:
            if k not in cands:
                yield ("constraint %r in %s for a feature that is not in the data" % (k, sh.label), True, None)
    for s in schema.shapes:
        if s.label not in expected_labels:
            yield ("shape %s for something that is not a selected class" % s.label, True, None)


# ------------------------------------------------------------------------- C01

def _kind_of_target(t):
    kind, v = t
    if kind == "datatype" or kind == "value":
        return v
    if kind == "ref":
        return "%<" + v + ">"
    return v  # 'IRI', 'BNode', 'NONLITERAL'


def _count_candidates(sym, c, d, prop, kind, card, disable_exact, on_line):
    """Acceptable oracle counts for a printed figure."""
    ref, nonlit = sym["ref"], sym["nonlit"]
    out = []
    if kind == "NONLITERAL":
        if (c, d, prop) in sym["both_kinds"]:
            return None  # not checked (see the property's quantifier)
        table = {k[3]: v for k, v in nonlit.items() if k[:3] == (c, d, prop)}
    else:
        table = {k[4]: v for k, v in ref.items() if k[:4] == (c, d, prop, kind)}
    if card in table:
        out.append(table[card])
    if card == "+" and on_line and disable_exact:
        out.extend(v for k, v in table.items() if isinstance(k, int) and k > 1)
    return out


def judge_c01(ctx, ex):
    schema, sym, flags = ctx["schema"], ctx["sym"], ctx["flags"]
    if schema is None:
        yield (ctx["parse_problem"], True, None)
        return
    for c, size in sym["counts"].items():
        for sh in shape_of(schema, c):
            nv = fig_value(ex, sh.n_instances)
            if nv is None:
                yield ("no instance count on the header of %s" % sh.label, True, None)
            else:
                yield ("instance count of %s differs from the number of selected nodes" % sh.label, _differs(nv, size), None)
            for stm in sh.statements:
                if len(stm.targets) != 1:
                    continue
                d = 1 if stm.inverse else 0
                kind = _kind_of_target(stm.targets[0])
                cls = "STAGE-nonliteral-merge-figures" if kind == "NONLITERAL" else None
                if stm.count is not None or stm.ratio is not None:
                    yield from _check_figure(ex, sym, c, d, stm.pred, kind, stm.card, stm.ratio, stm.count, size, flags, True,
                                             "line '%s' of %s" % (stm.raw.strip()[:60], sh.label), cls)
                elif stm.card not in ("*", "?"):
                    yield ("constraint line without a figure in %s: %s" % (sh.label, stm.raw.strip()[:60]), True, None)
                for com in stm.comments:
                    if com.get("other") or com.get("annotation"):
                        continue
                    ckind = _kind_of_target(com["obj"]) if com["obj"] is not None else kind
                    ccls = "STAGE-nonliteral-merge-figures" if ckind == "NONLITERAL" else None
                    yield from _check_figure(ex, sym, c, d, stm.pred, ckind, com["card"], com["ratio"], com["count"], size, flags, False,
                                             "comment '%s' of %s" % (com["raw"][:60], sh.label), ccls)


def _differs(v, size):
    if isinstance(v, (int, float)) and isinstance(size, int):
        return v != size
    se = as_expr(size) if not isinstance(size, SymFloat) else None
    if isinstance(v, SymFloat):
        return z3.Not(v._table(v.deps, lambda vals: z3.IntVal(int(v.fn(vals))) == se if v.fn(vals) == int(v.fn(vals)) else False))
    return as_expr(v) != se


def _check_figure(ex, sym, c, d, prop, kind, card, ratio, count, size, flags, on_line, where, cls):
    cands = _count_candidates(sym, c, d, prop, kind, card, flags["disable_exact_cardinality"], on_line)
    if cands is None:
        return
    if not cands:
        yield ("%s reports a (kind, cardinality) that no instance has" % where, True, cls)
        return
    cexprs = [as_expr(x) for x in cands]
    if count is not None:
        cv = fig_value(ex, count)
        ce = as_expr(cv)
        yield ("count on %s is not the number of instances with that many values" % where, z3.And([ce != x for x in cexprs]), cls)
    if ratio is not None:
        rv = fig_value(ex, ratio)
        yield ("ratio on %s is not count/instances" % where, z3.Not(ratio_ok_expr(rv, cexprs, size)), cls)
        yield ("ratio on %s exceeds 100 %%" % where, over_100_expr(rv), cls)


# ------------------------------------------------------------------------- concrete judges (real output on a concrete graph)

class ConcreteRef:
    """Reference figures recomputed from the triples of a concrete document."""

    def __init__(self, triples, inverse):
        self.instances, self.feats = R.refprof(triples, inverse=inverse)
        self.ref, _ = R.reference_counts(self.instances, self.feats, lambda n: 1, inverse=inverse)
        self.sizes = {}
        for node, classes in self.instances.items():
            for c in classes:
                self.sizes[c] = self.sizes.get(c, 0) + 1
        self.nonlit, self.both = {}, set()
        for node, classes in self.instances.items():
            for d in ((0, 1) if inverse else (0,)):
                for prop, kinds in self.feats[node][d].items():
                    if prop == RDF_TYPE:
                        continue
                    n_nl = kinds.get("IRI", 0) + kinds.get("BNode", 0)
                    if n_nl:
                        for c in classes:
                            for card in (n_nl, "+"):
                                self.nonlit[(c, d, prop, card)] = self.nonlit.get((c, d, prop, card), 0) + 1
                            if kinds.get("IRI", 0) and kinds.get("BNode", 0):
                                self.both.add((c, d, prop))

    def as_sym(self):
        return dict(ref=self.ref, nonlit=self.nonlit, both_kinds=self.both, counts=self.sizes)


def _num(fig):
    if fig is None:
        return None
    try:
        return int(fig.text)
    except ValueError:
        return float(fig.text)


def concrete_c02(cref, schema, threshold, tags):
    problems = []
    sym = cref.as_sym()
    labels = set()
    for c, size in cref.sizes.items():
        labels.add(R.shape_name(c)[2:-1])
        shapes = shape_of(schema, c)
        if len(shapes) != 1:
            problems.append("%d shapes for class %s" % (len(shapes), c))
            continue
        present = {}
        for stm in shapes[0].statements:
            for k in statement_keys(stm):
                present[k] = present.get(k, 0) + 1
        for k, n in present.items():
            if n > 1:
                problems.append("two constraints for the key %r" % (k,))
        cands = candidate_keys(sym, c)
        for k, cnt in cands.items():
            if "iri+bnode" in tags and k[2] == ("nonliteral",):
                continue
            want = float(cnt) / float(size) >= threshold
            if want != (k in present):
                problems.append("key %r: present=%s but frequency %d/%d vs threshold %r" % (k, k in present, cnt, size, threshold))
        for k in present:
            if k not in cands:
                problems.append("constraint %r for a feature that is not in the data" % (k,))
    for s in schema.shapes:
        if s.label not in labels:
            problems.append("shape %s for something that is not a selected class" % s.label)
    return problems


def concrete_c01(cref, schema, flags, tags):
    problems = []
    sym = cref.as_sym()
    for c, size in cref.sizes.items():
        for sh in shape_of(schema, c):
            n = _num(sh.n_instances)
            if n is not None and n != size:
                problems.append("header of %s says %r instances, the graph has %d" % (sh.label, n, size))
            for stm in sh.statements:
                if len(stm.targets) != 1:
                    continue
                d = 1 if stm.inverse else 0
                kind = _kind_of_target(stm.targets[0])
                items = []
                if stm.count is not None or stm.ratio is not None:
                    items.append((kind, stm.card, stm.ratio, stm.count, True, stm.raw.strip()[:70]))
                for com in stm.comments:
                    if com.get("other") or com.get("annotation"):
                        continue
                    ckind = _kind_of_target(com["obj"]) if com["obj"] is not None else kind
                    items.append((ckind, com["card"], com["ratio"], com["count"], False, com["raw"][:70]))
                for k2, card, ratio, count, on_line, where in items:
                    if k2 == "NONLITERAL" and "iri+bnode-known" in tags:
                        continue
                    cands = _count_candidates(sym, c, d, stm.pred, k2, card, flags["disable_exact_cardinality"], on_line)
                    if cands is None:
                        continue
                    cv, rv = _num(count), _num(ratio)
                    if cv is not None and cv not in cands:
                        problems.append("%s: count %r, the graph says %r" % (where, cv, cands))
                    if rv is not None:
                        if rv > 100.0 + TOL:
                            problems.append("%s: ratio above 100 %%" % where)
                        if not any(abs(rv - 100.0 * x / size) <= max(TOL * 100, 0.5 * 10 ** -_decimals(ratio.text)) for x in cands):
                            problems.append("%s: ratio %r, the graph says %r of %d" % (where, rv, cands, size))
    return problems


def _decimals(text):
    return len(text.split(".")[1]) if "." in text else 0
