"""Developer helper: run obligations of one family in-process and print per-obligation statistics."""
import sys
import time
from symx import instrument
instrument.install()
import json
from harness.common import new_result, load_findings


def main():
    fam, tier, flt = sys.argv[1], sys.argv[2], (sys.argv[3] if len(sys.argv) > 3 else "")
    prop = sys.argv[4] if len(sys.argv) > 4 else None
    if fam == "nt":
        from harness import nt as mod
        findings = [f for f in load_findings(prop or "C06") if f.get("family") == "nt"]
        obs = [(n, dict(spec=s, findings=findings)) for n, s in mod.skeletons(tier)]
    elif fam == "ttl":
        from harness import ttl as mod
        findings = [f for f in load_findings(prop or "C07") if f.get("family") == "ttl"]
        obs = [(n, dict(spec=s, findings=findings)) for n, s in mod.skeletons(tier)]
    else:
        raise SystemExit("unknown family")
    for name, kw in obs:
        if flt not in name:
            continue
        res = new_result(name)
        t = time.time()
        try:
            mod.run_obligation(res, **kw)
            err = ""
        except BaseException as e:  # noqa
            err = "%s: %s" % (type(e).__name__, str(e)[:300])
        print("%-40s paths=%-5d dec=%-6d calls=%-6d hangs=%d viol=%d known=%s t=%.1fs %s" % (
            name, res["paths"], res["decisions"], res["solver_calls"], res["hangs"], len(res["violations"]), res["known"], time.time() - t, err), flush=True)
        for v in res["violations"][:2]:
            print("     ", v["what"], "|", json.dumps(v["replay"]["args"].get("doc"), ensure_ascii=True), "|", json.dumps(v["observed"], ensure_ascii=True)[:200])


main()
