"""H-API: Shaper.profile_graph / shex_graph driven with a symbolic choice of output sinks (C04) and call histories (C18)."""
import os
import tempfile

import z3

from symx import Explorer, HarnessError, fork
from . import shims
from .common import absorb_stats

DOC = ('<http://ex.org/a> <http://www.w3.org/1999/02/22-rdf-syntax-ns#type> <http://ex.org/C> .\n'
       '<http://ex.org/a> <http://ex.org/p> "x" .\n<http://ex.org/b> <http://www.w3.org/1999/02/22-rdf-syntax-ns#type> <http://ex.org/C> .\n')


def _call(name, string_output, use_file):
    from shexer.shaper import Shaper
    sh = Shaper(raw_graph=DOC, all_classes_mode=True)
    path = None
    if use_file:
        fd, path = tempfile.mkstemp(suffix=".out")
        os.close(fd)
    try:
        if name.startswith("profile_graph"):
            r = sh.profile_graph(string_output=string_output, output_file=path)
        else:
            r = sh.shex_graph(string_output=string_output, output_file=path)
        return r if r is None or isinstance(r, str) else type(r).__name__
    finally:
        if path:
            os.unlink(path)


def run_obligation(res, name):
    shims.install()
    ex = Explorer(max_paths=100)

    def fn(ex):
        so = fork(ex.fresh_bool("string_output"))
        uf = fork(ex.fresh_bool("output_file_given"))
        try:
            return so, uf, "OK", _call(name, so, uf)
        except HarnessError:
            raise
        except Exception as e:  # noqa
            return so, uf, "EXC", e

    def on_path(r, ex):
        so, uf, tag, val = r
        res["reach"] += 1
        res["queries"] += 1
        must_reject = not so and not uf
        bad = (tag == "EXC") != must_reject or (tag == "EXC" and not isinstance(val, ValueError))
        if bad and len(res["violations"]) < 3:
            res["violations"].append(dict(what="%s(string_output=%r, output_file=%s) %s" % (name.split("/")[0], so, "given" if uf else "None",
                                                                                          "raised %s: %s" % (type(val).__name__, val) if tag == "EXC" else "was accepted without a sink"),
                                          replay=dict(family="api", args=dict(name=name, string_output=so, use_file=uf)), expected="a result (ValueError only without any sink)", observed=str(val)[:200]))
        res["witnesses"] += 1
        if len(res["samples"]) < 1:
            res["samples"].append(dict(call=name, string_output=so, output_file=uf, outcome=tag))

    ex.explore(fn, on_path)
    absorb_stats(res, ex)


def replay(args):
    must_reject = not args["string_output"] and not args["use_file"]
    try:
        _call(args["name"], args["string_output"], args["use_file"])
        ok = not must_reject
    except ValueError as e:
        ok = must_reject
        if not ok:
            print("ValueError: %s" % e)
    except Exception as e:  # noqa
        print("%s raised %s: %s" % (args["name"], type(e).__name__, e))
        return True
    if not ok:
        print("%s(string_output=%r, file=%r): wrong accept/reject" % (args["name"], args["string_output"], args["use_file"]))
    return not ok
