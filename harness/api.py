"""H-API: Shaper.profile_graph / shex_graph driven with a symbolic choice of output sinks (C04) and call histories (C18)."""
import os
import tempfile

import z3

from symx import Explorer, HarnessError, fork
from . import shims
from .common import absorb_stats

DOC = ('<http://ex.org/a> <http://www.w3.org/1999/02/22-rdf-syntax-ns#type> <http://ex.org/C> .\n'
       '<http://ex.org/a> <http://ex.org/p> "x" .\n<http://ex.org/b> <http://www.w3.org/1999/02/22-rdf-syntax-ns#type> <http://ex.org/C> .\n')


def _call(name, string_output, use_file):
    from shexer.shaper import Shaper
    sh = Shaper(raw_graph=DOC, all_classes_mode=True)
    path = None
    if use_file:
        fd, path = tempfile.mkstemp(suffix=".out")
        os.close(fd)
    try:
        if name.startswith("profile_graph"):
            r = sh.profile_graph(string_output=string_output, output_file=path)
        else:
            r = sh.shex_graph(string_output=string_output, output_file=path)
        return r if r is None or isinstance(r, str) else type(r).__name__
    finally:
        if path:
            os.unlink(path)


def run_obligation(res, name):
    shims.install()
    ex = Explorer(max_paths=100, path_wall_s=120)

    def fn(ex):
        so = fork(ex.fresh_bool("string_output"))
        uf = fork(ex.fresh_bool("output_file_given"))
        try:
            return so, uf, "OK", _call(name, so, uf)
        except HarnessError:
            raise
        except Exception as e:  # noqa
            return so, uf, "EXC", e

    def on_path(r, ex):
        so, uf, tag, val = r
        res["reach"] += 1
        res["queries"] += 1
        must_reject = not so and not uf
        bad = (tag == "EXC") != must_reject or (tag == "EXC" and not isinstance(val, ValueError))
        if bad and len(res["violations"]) < 3:
            res["violations"].append(dict(what="%s(string_output=%r, output_file=%s) %s" % (name.split("/")[0], so, "given" if uf else "None",
                                                                                          "raised %s: %s" % (type(val).__name__, val) if tag == "EXC" else "was accepted without a sink"),
                                          replay=dict(family="api", args=dict(name=name, string_output=so, use_file=uf)), expected="a result (ValueError only without any sink)", observed=str(val)[:200]))
        res["witnesses"] += 1
        if len(res["samples"]) < 1:
            res["samples"].append(dict(call=name, string_output=so, output_file=uf, outcome=tag))

    ex.explore(fn, on_path)
    absorb_stats(res, ex)


def replay(args):
    must_reject = not args["string_output"] and not args["use_file"]
    try:
        _call(args["name"], args["string_output"], args["use_file"])
        ok = not must_reject
    except ValueError as e:
        ok = must_reject
        if not ok:
            print("ValueError: %s" % e)
    except Exception as e:  # noqa
        print("%s raised %s: %s" % (args["name"], type(e).__name__, e))
        return True
    if not ok:
        print("%s(string_output=%r, file=%r): wrong accept/reject" % (args["name"], args["string_output"], args["use_file"]))
    return not ok


# ------------------------------------------------------------------------- C18: concrete call-history replays (not solver-decided)

BIG_NS = {"http://ex.org/": "ex"}


def _big_doc(n_classes):
    lines = []
    for i in range(n_classes):
        for j in range(2):
            s = "<http://ex.org/i%d_%d>" % (i, j)
            lines.append('%s <http://www.w3.org/1999/02/22-rdf-syntax-ns#type> <http://ex.org/C%d> .' % (s, i))
            for k in range(4 + j):
                lines.append('%s <http://ex.org/p%d> "v%d" .' % (s, k, k))
    return "\n".join(lines) + "\n"


def history_problems(name):
    from shexer.shaper import Shaper
    from shexer.consts import SHEXC, SHACL_TURTLE
    problems = []
    if name == "examples-repeat":
        sh = Shaper(raw_graph=DOC, all_classes_mode=True, examples_mode="all", namespaces_dict=dict(BIG_NS))
        a = sh.shex_graph(string_output=True)
        b = sh.shex_graph(string_output=True)
        if a != b:
            problems.append("repeating shex_graph with examples_mode changes the text:\n%s\n---\n%s" % (a, b))
    elif name.startswith("file-vs-string"):
        doc = _big_doc(900) if "10000" in name else DOC
        sh = Shaper(raw_graph=doc, all_classes_mode=True, namespaces_dict=dict(BIG_NS))
        a = sh.shex_graph(string_output=True)
        fd, path = tempfile.mkstemp(suffix=".shex")
        os.close(fd)
        try:
            Shaper(raw_graph=doc, all_classes_mode=True, namespaces_dict=dict(BIG_NS)).shex_graph(output_file=path)
            b = open(path).read()
        finally:
            os.unlink(path)
        if "10000" in name and a.count("\n") <= 10000:
            problems.append("witness too small: %d lines" % a.count("\n"))
        if a != b:
            problems.append("file output differs from the returned string (%d vs %d characters)" % (len(b), len(a)))
    elif name == "shared-namespaces-dict":
        for user in ({"http://ex.org/": "ex"}, {"http://ex.org/": ""}, {"http://ex.org/": "weso-s", "http://x.org/": ""}):
            shared = dict(user)
            Shaper(raw_graph=DOC, all_classes_mode=True, namespaces_dict=shared).shex_graph(string_output=True, output_format=SHACL_TURTLE)
            second = Shaper(raw_graph=DOC, all_classes_mode=True, namespaces_dict=shared).shex_graph(string_output=True)
            alone = Shaper(raw_graph=DOC, all_classes_mode=True, namespaces_dict=dict(user)).shex_graph(string_output=True)
            if second != alone:
                problems.append("a Shaper built with a namespaces dict that another Shaper used before behaves differently (user dict %r):\n%s\n---\n%s" % (user, second, alone))
        # the caller's dict may itself declare the shapes namespace; merely constructing Shapers must neither touch it nor influence one another
        shapes_ns = "http://weso.es/shapes/"
        for user in ({"http://ex.org/": "ex", shapes_ns: "sx"}, {"http://ex.org/": "ex", shapes_ns: ""}, {"http://ex.org/": "", shapes_ns: "weso-s"}, {"http://ex.org/": "ex"}):
            shared = dict(user)
            first = Shaper(raw_graph=DOC, all_classes_mode=True, namespaces_dict=shared)
            second = Shaper(raw_graph=DOC, all_classes_mode=True, namespaces_dict=shared)
            out_second = second.shex_graph(string_output=True)
            out_first = first.shex_graph(string_output=True)
            alone = Shaper(raw_graph=DOC, all_classes_mode=True, namespaces_dict=dict(user)).shex_graph(string_output=True)
            if shared != user:
                problems.append("constructing Shapers modified the caller's namespaces dict: %r -> %r" % (user, shared))
            if out_second != alone or out_first != alone:
                problems.append("two Shapers built from one namespaces dict object (user dict %r) differ from a Shaper with its own dict:\n%s\n---\n%s\n---\n%s" % (user, out_first, out_second, alone))
    elif name == "format-after-format":
        sh = Shaper(raw_graph=DOC, all_classes_mode=True, namespaces_dict=dict(BIG_NS))
        sh.shex_graph(string_output=True, output_format=SHACL_TURTLE)
        a = sh.shex_graph(string_output=True, output_format=SHEXC)
        b = Shaper(raw_graph=DOC, all_classes_mode=True, namespaces_dict=dict(BIG_NS)).shex_graph(string_output=True, output_format=SHEXC)
        if a != b:
            problems.append("ShExC after SHACL on one Shaper differs from ShExC on a fresh Shaper:\n%s\n---\n%s" % (a, b))
    return problems


def _safe_history_problems(name):
    try:
        return history_problems(name)
    except Exception as e:  # noqa
        import traceback
        return ["call history %s raised %s: %s (%s)" % (name, type(e).__name__, e, traceback.format_exc().strip().split("\n")[-3].strip()[:120])]


def run_history(res, name):
    with shims.real_code():
        problems = _safe_history_problems(name)
    res["paths"] = 1
    res["decisions"] = 1
    res["reach"] = 1
    res["witnesses"] = 1
    res["extra"]["no_reach_needed"] = True
    res["extra"]["not_solver_decided"] = True
    res["samples"].append(dict(concrete_history=name))
    if problems:
        res["violations"].append(dict(what=problems[0][:300], replay=dict(family="api", args=dict(history=name)), expected="identical results", observed=problems[0][:300]))


_replay_calls = replay


def replay(args):  # noqa: F811
    if "history" in args:
        p = _safe_history_problems(args["history"])
        if p:
            print(p[0][:1500])
        return bool(p)
    return _replay_calls(args)


# ------------------------------------------------------------------------- C10: selectors end to end (concrete, rdflib evaluates the generated queries)

SEL_DOC = "\n".join([
    '<http://ex.org/a> <http://www.w3.org/1999/02/22-rdf-syntax-ns#type> <http://ex.org/C> .',
    '<http://ex.org/a> <http://ex.org/p> <http://ex.org/b> .',
    '<http://ex.org/b> <http://www.w3.org/1999/02/22-rdf-syntax-ns#type> <http://ex.org/D> .',
    '<http://ex.org/b> <http://ex.org/p> <http://ex.org/c> .',
    '<http://ex.org/c> <http://ex.org/q> "x" .',
    '<http://ex.org/d> <http://www.w3.org/1999/02/22-rdf-syntax-ns#type> <http://ex.org/C> .',
    '<http://ex.org/d> <http://ex.org/isa> <http://ex.org/D> .',
]) + "\n"
SEL_TRIPLES = [("a", "type", "C"), ("a", "p", "b"), ("b", "type", "D"), ("b", "p", "c"), ("d", "type", "C"), ("d", "isa", "D")]
SELECTORS = [
    ("<http://ex.org/a>", {"a"}), ("ex:b", {"b"}),
    ("{FOCUS a ex:C}", {"a", "d"}), ("{FOCUS a _}", {"a", "b", "d"}), ("{FOCUS ex:p _}", {"a", "b"}), ("{FOCUS <http://ex.org/p> ex:c}", {"b"}),
    ("{_ ex:p FOCUS}", {"b", "c"}), ("{ex:a ex:p FOCUS}", {"b"}), ("{_ a FOCUS}", {"C", "D"}),
    ("SPARQL 'SELECT ?s WHERE { ?s <http://ex.org/p> ?o . }'", {"a", "b"}),
]


def selector_problems(fmt):
    import json as _json
    from shexer.shaper import Shaper
    from shexer.consts import JSON, FIXED_SHAPE_MAP
    problems = []
    for i, (sel, nodes) in enumerate(SELECTORS):
        for label_text, label_iri in (("<http://sh.org/S%d>" % i, "http://sh.org/S%d" % i), ("sx:S%d" % i, "http://sh.org/S%d" % i)):
            if fmt == "json":
                sm = _json.dumps([{"nodeSelector": sel, "shapeLabel": label_text}])
            else:
                sm = sel + "@" + label_text
            try:
                out = Shaper(raw_graph=SEL_DOC, shape_map_raw=sm, shape_map_format=JSON if fmt == "json" else FIXED_SHAPE_MAP,
                             namespaces_dict={"http://ex.org/": "ex", "http://sh.org/": "sx"}, instances_report_mode="abs",
                             remove_empty_shapes=False).shex_graph(string_output=True)
            except Exception as e:  # noqa
                problems.append("selector %r (%s) raised %s: %s" % (sel, fmt, type(e).__name__, e))
                continue
            # C10 is about the node set behind the shape; how the label is spelled in the output is not judged here
            want_header = ":S%d   # %d instance%s." % (i, len(nodes), "" if len(nodes) == 1 else "s")
            if want_header not in out or out.count(" instance") < 1:
                problems.append("selector %r with label %r (%s): expected header %r in\n%s" % (sel, label_text, fmt, want_header, out))
    return problems


def instantiation_property_problems():
    """custom instantiation property: rdf:type is an ordinary property; class membership follows the custom property."""
    from shexer.shaper import Shaper
    out = Shaper(raw_graph=SEL_DOC, target_classes=["http://ex.org/D"], instantiation_property="http://ex.org/isa",
                 namespaces_dict={"http://ex.org/": "ex", "http://www.w3.org/1999/02/22-rdf-syntax-ns#": "rdf"}, instances_report_mode="abs").shex_graph(string_output=True)
    problems = []
    if ":D   # 1 instance." not in out:
        problems.append("with instantiation_property=ex:isa the class D must have exactly the instance d:\n" + out)
    if "rdf:type  IRI" not in out:
        problems.append("with a custom instantiation property rdf:type must be an ordinary IRI-valued property:\n" + out)
    return problems


MIN_IRI_DOC = ('<http://a.org/x1> <http://www.w3.org/1999/02/22-rdf-syntax-ns#type> <http://ex.org/C> .\n'
               '<urn:b:y2> <http://www.w3.org/1999/02/22-rdf-syntax-ns#type> <http://ex.org/C> .\n'
               '<http://ex.org/i/1> <http://www.w3.org/1999/02/22-rdf-syntax-ns#type> <http://ex.org/D> .\n'
               '<http://ex.org/i/2> <http://www.w3.org/1999/02/22-rdf-syntax-ns#type> <http://ex.org/D> .\n')


def min_iri_repeat_problems():
    from shexer.shaper import Shaper
    sh = Shaper(raw_graph=MIN_IRI_DOC, all_classes_mode=True, detect_minimal_iri=True, namespaces_dict={"http://ex.org/": "ex"})
    a = sh.shex_graph(string_output=True)
    b = sh.shex_graph(string_output=True)
    fresh = Shaper(raw_graph=MIN_IRI_DOC, all_classes_mode=True, detect_minimal_iri=True, namespaces_dict={"http://ex.org/": "ex"}).shex_graph(string_output=True)
    out = []
    if a != b or a != fresh:
        out.append("repeating shex_graph with detect_minimal_iri changes the text:\n%s\n---\n%s" % (a, b))
    if "[<http://ex.org/i/>~]" not in a or ":C  [" in a:
        out.append("unexpected stems:\n" + a)
    return out


SEL_DOC2 = SEL_DOC.replace("<http://ex.org/d> <http://www.w3.org/1999/02/22-rdf-syntax-ns#type> <http://ex.org/C> .\n", "")


def selectors_two_graphs_problems():
    """the same selectors on two different graphs in one process, and overlapping items in one shape map."""
    from shexer.shaper import Shaper
    ns = {"http://ex.org/": "ex", "http://sh.org/": "sx"}
    problems = []
    # two entries sharing a label select the union of their nodes
    out = Shaper(raw_graph=SEL_DOC, shape_map_raw="<http://ex.org/c>@<http://sh.org/U>\n{FOCUS a ex:C}@<http://sh.org/U>\n<http://ex.org/b>@<http://sh.org/V>", namespaces_dict=dict(ns),
                 instances_report_mode="abs", remove_empty_shapes=False).shex_graph(string_output=True)
    for w in ("sx:U   # 3 instances.", "sx:V   # 1 instance."):
        if w not in out:
            problems.append("two shape-map entries with the same label: expected %r in\n%s" % (w, out))
    sm = "{FOCUS a ex:C}@<http://sh.org/A>\n{FOCUS ex:p _}@<http://sh.org/B>"
    outs = []
    for doc, want in ((SEL_DOC, ("sx:A   # 2 instances.", "sx:B   # 2 instances.")), (SEL_DOC2, ("sx:A   # 1 instance.", "sx:B   # 2 instances.")),
                      (SEL_DOC, ("sx:A   # 2 instances.", "sx:B   # 2 instances."))):
        out = Shaper(raw_graph=doc, shape_map_raw=sm, namespaces_dict=dict(ns), instances_report_mode="abs", remove_empty_shapes=False).shex_graph(string_output=True)
        for w in want:
            if w not in out:
                problems.append("overlapping items / repeated selectors: expected %r in\n%s" % (w, out))
    return problems


def mixed_mode_problems():
    """all_classes_mode together with a shape map: class shapes and shape-map shapes both, a node found by both keeps both."""
    from shexer.shaper import Shaper
    ns = {"http://ex.org/": "ex", "http://sh.org/": "sx"}
    problems = []
    for sm, want in (("{FOCUS ex:p _}@<http://sh.org/B>", ("sx:B   # 2 instances.", ":C   # 2 instances.", ":D   # 1 instance.")),
                     ("<http://ex.org/c>@<http://sh.org/N>\n{FOCUS a ex:C}@<http://sh.org/A>", ("sx:N   # 1 instance.", "sx:A   # 2 instances.", ":C   # 2 instances.", ":D   # 1 instance."))):
        out = Shaper(raw_graph=SEL_DOC, shape_map_raw=sm, all_classes_mode=True, namespaces_dict=dict(ns), instances_report_mode="abs",
                     remove_empty_shapes=False).shex_graph(string_output=True)
        for w in want:
            if w not in out:
                problems.append("all_classes_mode + shape map %r: expected %r in\n%s" % (sm, w, out))
    return problems


def file_target_classes_problems():
    """file_target_classes in the three spellings (full, <bracketed>, prefixed), '#' namespaces, blank lines and padding: the same shapes as target_classes=[...]."""
    import os
    import tempfile
    from shexer.shaper import Shaper
    doc = SEL_DOC + '<http://ex.org/e> <http://www.w3.org/1999/02/22-rdf-syntax-ns#type> <http://ex.org/onto#K> .\n<http://ex.org/e> <http://ex.org/q> "y" .\n'
    ns = {"http://ex.org/": "ex", "http://ex.org/onto#": "on"}
    want = Shaper(raw_graph=doc, target_classes=["http://ex.org/C", "http://ex.org/D", "http://ex.org/onto#K"], namespaces_dict=dict(ns), instances_report_mode="abs").shex_graph(string_output=True)
    problems = []
    for text in ("http://ex.org/C\nhttp://ex.org/D\nhttp://ex.org/onto#K\n", "<http://ex.org/C>\n<http://ex.org/D>\n<http://ex.org/onto#K>", "ex:C\n\n  ex:D  \non:K\n\n"):
        fd, path = tempfile.mkstemp(suffix=".txt")
        try:
            with os.fdopen(fd, "w") as f:
                f.write(text)
            got = Shaper(raw_graph=doc, file_target_classes=path, namespaces_dict=dict(ns), instances_report_mode="abs").shex_graph(string_output=True)
        finally:
            os.unlink(path)
        if got != want:
            problems.append("file_target_classes %r differs from target_classes=[...]:\n%s\n---\n%s" % (text, got, want))
    return problems


IGN_DOC = "".join([
    '<http://ex.org/a> <http://www.w3.org/1999/02/22-rdf-syntax-ns#type> <http://ex.org/C> .\n',
    '<http://ex.org/a> <http://o.org/p> "x" .\n', '<http://ex.org/a> <http://o.org/c/q> "y" .\n', '<http://ex.org/a> <http://k.org/r> <http://ex.org/z> .\n',
    '<http://ex.org/b> <http://www.w3.org/1999/02/22-rdf-syntax-ns#type> <http://ex.org/C> .\n',
    '<http://ex.org/b> <http://o.org/p> "x" .\n', '<http://ex.org/b> <http://k.org/r> <http://ex.org/z> .\n'])


def ignore_lists_problems():
    """several extractions in one process with different namespaces_to_ignore lists: each equals the extraction from the document with those triples deleted
    (class membership kept) - no decision of an earlier run may leak into a later one."""
    from shexer.shaper import Shaper
    problems = []

    def direct_child(p, ns):
        return p.startswith(ns) and "/" not in p[len(ns):] and "#" not in p[len(ns):]
    lists = [["http://o.org/"], ["http://k.org/"], ["http://o.org/c/"], ["http://o.org/", "http://k.org/"], ["http://x.org/"], ["http://o.org/c/", "http://o.org/"]]
    for nsl in lists + lists[:2]:
        kept = []
        for line in IGN_DOC.strip().split("\n"):
            pred = line.split(" ")[1][1:-1]
            if "rdf-syntax-ns#type" in pred or not any(direct_child(pred, ns) for ns in nsl):
                kept.append(line)
        got = Shaper(raw_graph=IGN_DOC, all_classes_mode=True, namespaces_to_ignore=list(nsl), instances_report_mode="abs").shex_graph(string_output=True)
        want = Shaper(raw_graph="\n".join(kept) + "\n", all_classes_mode=True, instances_report_mode="abs").shex_graph(string_output=True)
        if got != want:
            problems.append("namespaces_to_ignore=%r (after other lists in the same process) differs from deleting the triples:\n%s\n---\n%s" % (nsl, got, want))
    return problems


ISOLATION_CONFIGS = [
    ("IGN_DOC", dict(all_classes_mode=True, namespaces_to_ignore=["http://o.org/"])),
    ("IGN_DOC", dict(all_classes_mode=True, namespaces_to_ignore=["http://k.org/"])),
    ("IGN_DOC", dict(all_classes_mode=True, inverse_paths=True)),
    ("SEL_DOC", dict(target_classes=["http://ex.org/D"], instantiation_property="http://ex.org/isa")),
    ("SEL_DOC", dict(shape_map_raw="{FOCUS ex:p _}@<http://sh.org/B>", namespaces_dict={"http://ex.org/": "ex", "http://sh.org/": "sx"})),
    ("MIN_IRI_DOC", dict(all_classes_mode=True, examples_mode="all", detect_minimal_iri=True)),
    ("IGN_DOC", dict(all_classes_mode=True, namespaces_dict={"http://o.org/": "o", "http://ex.org/": "ex"}, namespaces_to_ignore=["http://o.org/c/"])),
    ("SEL_DOC", dict(all_classes_mode=True, namespaces_to_ignore=["http://ex.org/"], disable_comments=True)),
    ("IGN_DOC", dict(all_classes_mode=True, shape_qualifiers_mode=False, namespaces_for_qualifier_props=["http://k.org/"], instances_report_mode="abs")),
]


def _isolation_run(i):
    from shexer.shaper import Shaper
    doc_name, kw = ISOLATION_CONFIGS[i]
    return Shaper(raw_graph=globals()[doc_name], **kw).shex_graph(string_output=True)


def isolation_problems():
    """Results depend only on the arguments: each configuration run after (and between) other Shapers of the same process gives the text it gives alone in a fresh
    interpreter.  Catches state that outlives a Shaper (module-level / class-level caches keyed too coarsely)."""
    import subprocess
    import sys
    import os
    env = dict(os.environ)
    refs = []
    for i in range(len(ISOLATION_CONFIGS)):
        p = subprocess.run([sys.executable, "-W", "ignore", "-c", "import sys\nfrom harness import api\nsys.stdout.write(api._isolation_run(%d))" % i],
                           capture_output=True, text=True, env=env, cwd=os.path.dirname(os.path.dirname(os.path.abspath(__file__))))
        if p.returncode != 0:
            return ["configuration %d alone in a fresh interpreter failed: %s" % (i, p.stderr[-300:])]
        refs.append(p.stdout)
    problems = []
    order = list(range(len(ISOLATION_CONFIGS))) + list(reversed(range(len(ISOLATION_CONFIGS))))
    for i in order:
        got = _isolation_run(i)
        if got != refs[i]:
            problems.append("configuration %r after other Shapers in the same process differs from the same configuration alone:\n%s\n--- alone\n%s" % (ISOLATION_CONFIGS[i][1], got, refs[i]))
            break
    return problems


def shacl_shapemap_problems():
    """SHACL for shape-map selected shapes with prefixed labels (the bracketed spelling crashes: recorded C04 finding), empty shapes kept:
    the document parses, every sh:node object is a declared NodeShape, every property shape has one path."""
    from shexer.shaper import Shaper
    from shexer.consts import SHACL_TURTLE
    from .stage_props import shacl_problems
    doc = ('<http://ex.org/a> <http://ex.org/p> <http://ex.org/b> .\n<http://ex.org/a> <http://ex.org/q> "x" .\n'
           '<http://ex.org/a2> <http://ex.org/p> <http://ex.org/b2> .\n<http://ex.org/c> <http://ex.org/r> <http://ex.org/a> .\n')
    problems = []
    for sm in ("<http://ex.org/a>@:A\n<http://ex.org/a2>@:A\n<http://ex.org/b>@:B\n<http://ex.org/b2>@:B",
               "{FOCUS ex:p _}@:A\n{_ ex:p FOCUS}@:B\n<http://ex.org/c>@:C"):
        for inverse in (False, True):
            for thr in (0.0, 0.6, 1.0):
                out = Shaper(shape_map_raw=sm, raw_graph=doc, namespaces_dict={"http://ex.org/": "ex"}, remove_empty_shapes=False, inverse_paths=inverse).shex_graph(
                    string_output=True, output_format=SHACL_TURTLE, acceptance_threshold=thr)
                for p_ in shacl_problems(out):
                    problems.append("SHACL for shape map %r (inverse_paths=%s, threshold %s): %s\n%s" % (sm, inverse, thr, p_, out))
    return problems


def literal_answers_problems():
    """a {_ p FOCUS} pattern / SPARQL selector whose answers include a literal: every answer is a node of the shape (fixed and JSON syntax)."""
    import json as _json
    from shexer.shaper import Shaper
    from shexer.consts import JSON, FIXED_SHAPE_MAP
    doc = '<http://ex.org/a> <http://ex.org/r> "lit" .\n<http://ex.org/a> <http://ex.org/r> <http://ex.org/b> .\n<http://ex.org/b> <http://ex.org/s> "x" .\n'
    problems = []
    for sel in ("{_ ex:r FOCUS}", "SPARQL 'SELECT ?o WHERE { ?s <http://ex.org/r> ?o . }'"):
        for fmt in ("fsm", "json"):
            sm = _json.dumps([{"nodeSelector": sel, "shapeLabel": "<http://sh.org/R>"}]) if fmt == "json" else sel + "@<http://sh.org/R>"
            out = Shaper(raw_graph=doc, shape_map_raw=sm, shape_map_format=JSON if fmt == "json" else FIXED_SHAPE_MAP, namespaces_dict={"http://ex.org/": "ex", "http://sh.org/": "sx"},
                         instances_report_mode="abs", remove_empty_shapes=False).shex_graph(string_output=True)
            if "sx:R   # 2 instances." not in out:
                problems.append("selector %r (%s) denotes the literal and the IRI value of ex:r: expected 'sx:R   # 2 instances.' in\n%s" % (sel, fmt, out))
    return problems


def target_class_spellings_problems():
    """target_classes given as full, <bracketed> or prefixed IRIs (one class without instances), empty shapes kept or not: the same shapes as with full IRIs."""
    from shexer.shaper import Shaper
    ns = {"http://ex.org/": "ex"}
    problems = []
    for keep in (False, True):
        want = Shaper(raw_graph=SEL_DOC, target_classes=["http://ex.org/C", "http://ex.org/D", "http://ex.org/Z"], namespaces_dict=dict(ns), instances_report_mode="abs",
                      remove_empty_shapes=keep).shex_graph(string_output=True)
        for spelled in (["<http://ex.org/C>", "<http://ex.org/D>", "<http://ex.org/Z>"], ["ex:C", "ex:D", "ex:Z"], ["ex:C", "<http://ex.org/D>", "http://ex.org/Z"]):
            got = Shaper(raw_graph=SEL_DOC, target_classes=list(spelled), namespaces_dict=dict(ns), instances_report_mode="abs", remove_empty_shapes=keep).shex_graph(string_output=True)
            if got != want:
                problems.append("target_classes=%r (remove_empty_shapes=%s) differs from the full-IRI spelling:\n%s\n---\n%s" % (spelled, keep, got, want))
    return problems


def _history_more(name):
    if name == "selectors-literal-answers":
        return literal_answers_problems()
    if name == "target-classes-spellings":
        return target_class_spellings_problems()
    if name == "shacl-shape-map-prefixed-labels":
        return shacl_shapemap_problems()
    if name == "cross-shaper-isolation":
        return isolation_problems()
    if name == "ignore-several-lists":
        return ignore_lists_problems()
    if name == "all-classes-plus-shape-map":
        return mixed_mode_problems()
    if name == "file-target-classes":
        return file_target_classes_problems()
    if name == "selectors-two-graphs":
        return selectors_two_graphs_problems()
    if name == "min-iri-repeat":
        return min_iri_repeat_problems()
    if name == "selectors-fsm":
        return selector_problems("fsm")
    if name == "selectors-json":
        return selector_problems("json")
    if name == "custom-instantiation-property":
        return instantiation_property_problems()
    return None


_history_base = history_problems


def history_problems(name):  # noqa: F811
    r = _history_more(name)
    return r if r is not None else _history_base(name)
