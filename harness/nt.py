"""H-NT: the real N-Triples reader executed on statements with symbolic characters (C06, C04, C09c).

Code under test (real, from /repo): RawStringLineReader.read_lines, NtTriplesYielder.yield_triples /
_look_for_tokens / _look_for_last_index_of_*, utils.triple_yielders.tune_token / tune_prop,
utils.uri.decide_literal_type / parse_literal / remove_corners / there_is_arroba_after_last_quotes.

A statement skeleton fixes term kinds, escapes, separators and the tail; the free characters are z3
Ints ranging over every Unicode scalar the N-Triples grammar allows at that position.  The expected
triple is known by construction.
"""
import z3

from symx import Explorer, Hang, HarnessError, SymStr, concretize, leak_scan
from symx.symstr import as_z3, _or
from . import shims
from .common import absorb_stats, run_with_alarm

XSD = "http://www.w3.org/2001/XMLSchema#"
XSD_STRING = XSD + "string"
LANG_STRING = "http://www.w3.org/1999/02/22-rdf-syntax-ns#langString"

FUNCTIONS = [
    "shexer.io.line_reader.raw_string_line_reader.RawStringLineReader.read_lines",
    "shexer.io.graph.yielder.nt_triples_yielder.NtTriplesYielder.yield_triples",
    "NtTriplesYielder._look_for_tokens", "NtTriplesYielder._look_for_last_index_of_uri_token",
    "NtTriplesYielder._look_for_last_index_of_bnode_token", "NtTriplesYielder._look_for_last_index_of_literal_token",
    "shexer.utils.triple_yielders.tune_token", "shexer.utils.triple_yielders.tune_prop",
    "shexer.utils.uri.parse_literal", "shexer.utils.uri.decide_literal_type",
    "shexer.utils.uri.there_is_arroba_after_last_quotes", "shexer.utils.uri.remove_corners",
    "shexer.model.IRI/BNode/Literal/Property constructors",
]
ASSUMPTIONS = [
    "input grammar (N-Triples): IRIREF characters are > U+0020 and not in <>\"{}|^`\\ ; STRING_LITERAL_QUOTE characters are "
    "not \" \\ LF CR (escapes appear only as the concrete skeleton pieces \\\" \\\\ \\n \\t \\uXXXX); blank-node label "
    "characters in [A-Za-z0-9_] or U+00C0..U+00D6; first language subtag in [A-Za-z], later subtags in [A-Za-z0-9]; comment characters are not LF/CR",
    "document delivered through raw_graph= (RawStringLineReader); file/compressed line readers are outside (C08 n/a)",
    "one statement per line; comment-only lines are outside the quantifier of C06",
]

_IRI_BAD = [ord(c) for c in '<>"{}|^`\\']


def c_iri(c):
    return z3.And(c > 0x20, *[c != b for b in _IRI_BAD])


def c_lit(c):
    return z3.And(c != 0x22, c != 0x5C, c != 0x0A, c != 0x0D)


def c_comment(c):
    return z3.And(c != 0x0A, c != 0x0D)


def c_lang(c):
    return z3.Or(z3.And(c >= 65, c <= 90), z3.And(c >= 97, c <= 122))


def c_langnum(c):
    return z3.Or(c_lang(c), z3.And(c >= 48, c <= 57))


def c_label(c):
    return z3.Or(z3.And(c >= 65, c <= 90), z3.And(c >= 97, c <= 122), z3.And(c >= 48, c <= 57), c == 95,
                 z3.And(c >= 0xC0, c <= 0xD6))


def _free(ex, name, k, constraint):
    out = []
    for i in range(k):
        c = ex.fresh_int("%s_%d" % (name, i), 0, 0x10FFFF)
        ex.add(z3.Or(c < 0xD800, c > 0xDFFF), constraint(c))
        out.append(c)
    return out


def _build_term(ex, tag, t):
    """-> (token SymStr, expected dict, parts dict)"""
    kind = t["kind"]
    if kind == "iri":
        body = SymStr(tuple(t.get("base", "http://a.b/")) + tuple(_free(ex, tag, t.get("k", 0), c_iri)) + tuple(t.get("post", "")))
        return "<" + body + ">", dict(cls="IRI", val=body), dict(iri=body)
    if kind == "bnode":
        label = SymStr(tuple("_:b") + tuple(_free(ex, tag, t.get("k", 0), c_label)) + tuple(t.get("mid", "")) + tuple(_free(ex, tag + "x", t.get("k2", 0), c_label)))
        return label, dict(cls="BNode", val=label), dict(label=label)
    if kind == "lit":
        items = []
        n = 0
        for piece in t.get("body", []):
            if piece is None:
                items.extend(_free(ex, "%s_b%d" % (tag, n), 1, c_lit))
                n += 1
            else:
                items.extend(piece)
        body = SymStr(items)
        sfx = t.get("suffix", {"kind": "none"})
        parts = dict(body=body, suffix=sfx["kind"])
        if sfx["kind"] == "none":
            return '"' + body + '"', dict(cls="Literal", val=XSD_STRING), parts
        if sfx["kind"] == "lang":
            tagstr = SymStr(tuple(sfx.get("pre", "")) + tuple(_free(ex, tag + "_l", sfx.get("k", 0), c_langnum if sfx.get("alnum") else c_lang)) + tuple(sfx.get("post", "")))
            parts["lang"] = tagstr
            return '"' + body + '"@' + tagstr, dict(cls="Literal", val=LANG_STRING), parts
        if sfx["kind"] == "dt":
            dt = SymStr(tuple(sfx.get("base", XSD)) + tuple(_free(ex, tag + "_d", sfx.get("k", 0), c_iri)) + tuple(sfx.get("post", "")))
            parts["dt"] = dt
            return '"' + body + '"^^<' + dt + ">", dict(cls="Literal", val=dt), parts
    raise HarnessError("bad term spec %r" % (t,))


def build_document(ex, spec):
    lines, expected, parts_all = [], [], []
    for si, st in enumerate(spec["stmts"]):
        s_tok, s_exp, s_parts = _build_term(ex, "s%d_s" % si, st["subj"])
        p_tok, p_exp, p_parts = _build_term(ex, "s%d_p" % si, dict(kind="iri", **st.get("pred", {})))
        o_tok, o_exp, o_parts = _build_term(ex, "s%d_o" % si, st["obj"])
        seps = st.get("seps", [" ", " "])
        tail = st.get("tail", "sp_dot")
        line = s_tok + seps[0] + p_tok + seps[1] + o_tok
        parts = dict(subj=s_parts, pred=p_parts, obj=o_parts, tail=tail, okind=st["obj"]["kind"])
        if tail == "sp_dot":
            line = line + " ."
        elif tail == "dot":
            line = line + "."
        elif tail == "sp_dot_comment":
            com = SymStr(_free(ex, "s%d_c" % si, st.get("comment_k", 1), c_comment))
            parts["comment"] = com
            line = line + " . #" + st.get("comment_pre", " ") + com
        elif tail == "tab_dot":
            line = line + "\t."
        else:
            raise HarnessError("bad tail")
        lines.append(line)
        expected.append((s_exp, dict(cls="Property", val=p_exp["val"]), o_exp))
        parts_all.append(parts)
    doc = lines[0]
    for l in lines[1:]:
        doc = doc + "\n" + l
    if spec.get("final_newline"):
        doc = doc + "\n"
    return doc, expected, parts_all


# ------------------------------------------------------------------------- running the real reader

def read_nt(doc):
    """Runs the real reader.  -> (list of (cls, value) triples, error_triples)."""
    from shexer.io.graph.yielder.nt_triples_yielder import NtTriplesYielder
    y = NtTriplesYielder(raw_graph=doc)
    out = []
    for t in y.yield_triples():
        out.append(tuple(_obs(x) for x in t))
    return out, y.error_triples


def _obs(x):
    name = type(x).__name__
    if name == "Literal":
        return (name, x.elem_type)
    return (name, x.iri)


def _mismatch_expr(triples, err, expected):
    """z3 Bool / python bool: the observed result differs from the expected one; plus a label."""
    if len(triples) != len(expected):
        return True, "number of triples %d != %d" % (len(triples), len(expected))
    if err != 0:
        return True, "error_triples=%r" % (err,)
    conds = []
    for got, exp in zip(triples, expected):
        for (gcls, gval), e in zip(got, exp):
            if gcls != e["cls"]:
                return True, "node kind %s != %s" % (gcls, e["cls"])
            eq = SymStr.lift(gval).eq_expr(e["val"])
            conds.append((not eq) if isinstance(eq, bool) else z3.Not(eq))
    return _or(conds), "term value differs"


# ------------------------------------------------------------------------- known-finding predicates
# Each maps the named parts of one statement to a z3 Bool (or python bool) describing an input class.

def _has(s, sub):
    return SymStr.lift(s).contains_expr(sub)


def _is_lit(p):
    return p["okind"] == "lit"


def _caret_fail(body, with_space):
    """'^^' inside the lexical form at a position where the scanners are known to go wrong: at the very start or right
    after an escaped quote (so that the text '"^^' occurs before the real suffix) or - N-Triples only - followed later by a
    blank inside the lexical form (token ends are located by searching ' ' after the first '^^')."""
    body = SymStr.lift(body)
    n = len(body.items)
    conds = []
    for i in range(0, n - 1):
        m = body.match_at_expr("^^", i)
        if m is False:
            continue
        ctx = [i == 0]
        if i > 0:
            ctx.append(body.match_at_expr('"', i - 1))
        if with_space:
            ctx.extend(body.match_at_expr(" ", j) for j in range(i + 2, n))
        c = _or(ctx)
        if c is False:
            continue
        conds.append(c if m is True else (m if c is True else z3.And(m, c)))
    return _or(conds)


PREDICATES = {
    "body_contains_caret_caret": lambda p: _is_lit(p) and _caret_fail(p["obj"]["body"], True),
    "typed_literal_mentions_builtin_prefix": lambda p: _is_lit(p) and p["obj"]["suffix"] == "dt" and _or(
        [_has(p["obj"]["body"], x) for x in ("xsd:", "rdf:", "dt:", "geo:")] +
        [_has(p["obj"]["dt"], x) for x in ("xsd:", "rdf:", "dt:", "geo:")]),
    "typed_literal_body_mentions_builtin_namespace": lambda p: _is_lit(p) and p["obj"]["suffix"] == "dt" and _or(
        [_has(p["obj"]["body"], x) for x in ("http://www.w3.org/2001/XMLSchema#", "http://www.w3.org/1999/02/22-rdf-syntax-ns#",
                                               "http://dbpedia.org/datatype/", "http://www.opengis.net/ont/geosparql#")]),
    # a plain literal whose lexical form contains '^^' is scanned like a typed one (its end is searched as the next ' '), hence the third disjunct
    "no_blank_before_final_dot_after_suffixed_literal_or_bnode": lambda p: p["tail"] in ("dot", "tab_dot") and _or([
        p["okind"] == "bnode", _is_lit(p) and p["obj"]["suffix"] in ("lang", "dt"), _is_lit(p) and _has(p["obj"]["body"], "^^")]),
    "comment_contains_marker": lambda p: _is_lit(p) and "comment" in p and _or(
        [_has(p["comment"], x) for x in ("@", '"', "^^")]),
    "body_escaped_backslash_then_quote": lambda p: _is_lit(p) and _has(p["obj"]["body"], '\\\\\\"'),
    "body_escaped_quote_then_carets": lambda p: _is_lit(p) and _has(p["obj"]["body"], '\\"^^'),
    "datatype_iri_contains_at": lambda p: _is_lit(p) and p["obj"]["suffix"] == "dt" and _has(p["obj"]["dt"], "@"),
}


def known_expr(findings, parts_all):
    """-> list of (finding id, z3 Bool) for open findings with predicates of this family."""
    out = []
    for f in findings:
        if f.get("status") == "fixed" or f.get("family") != "nt":
            continue
        pred = PREDICATES[f["predicate"]]
        e = _or([pred(p) for p in parts_all])
        out.append((f["id"], e))
    return out


# ------------------------------------------------------------------------- obligation runner

def run_obligation(res, spec, findings, check_c04_only=False):
    shims.install()
    ex = Explorer(max_paths=spec.get("max_paths", 60000), path_wall_s=120)      # hangs are detected by the (deterministic) operation budget; the wall clock is only a backstop

    def fn(ex):
        doc, expected, parts = build_document(ex, spec)
        try:
            triples, err = read_nt(doc)
            tag, val = "OK", (triples, err)
        except Hang:
            ex.stats["hangs"] += 1
            tag, val = "HANG", None
        except HarnessError:
            raise
        except Exception as e:  # noqa
            tag, val = "EXC", e
        return doc, expected, parts, tag, val

    def on_path(r, ex):
        doc, expected, parts, tag, val = r
        res["reach"] += 1
        if tag == "OK":
            if leak_scan(val):
                raise HarnessError("placeholder buffer leaked into the reader's output")
            if check_c04_only:
                bad, what = False, ""
            else:
                bad, what = _mismatch_expr(val[0], val[1], expected)
        elif tag == "HANG":
            bad, what = True, "reader does not terminate"
        else:
            bad, what = True, "reader raised %s: %s" % (type(val).__name__, str(concretize_msg(val))[:120])
        kn = known_expr(findings, parts)
        res["queries"] += 1
        viol_model = None
        if bad is not False:
            bad_z = as_z3(bad)
            not_known = z3.Not(z3.Or([as_z3(e) for _, e in kn])) if kn else z3.BoolVal(True)
            m = ex.model(bad_z, not_known)
            if m is not None:
                viol_model = m
                if len(res["violations"]) < 3:
                    cdoc = doc.model_str(m) if isinstance(doc, SymStr) else doc
                    cexp = [[dict(cls=e["cls"], val=concretize(e["val"], m)) for e in tr] for tr in expected]
                    res["violations"].append(dict(
                        what=what, replay=dict(family="nt", args=dict(doc=cdoc, expected=cexp, c04_only=check_c04_only)),
                        expected=cexp, observed=_observed(tag, val, m)))
            else:
                for fid, e in kn:
                    if ex.sat(bad_z, as_z3(e)):
                        res["known"][fid] = res["known"].get(fid, 0) + 1
        # per-path differential against the real code on plain values
        m = viol_model or ex.model()
        cdoc = doc.model_str(m) if isinstance(doc, SymStr) else doc
        with shims.real_code():
            ctag, cval = run_with_alarm(lambda: read_nt(cdoc), 1.0)
            if ctag == "HANG" and tag != "HANG":      # symbolic run terminated: second, generous attempt before reporting a disagreement (loaded machine)
                ctag, cval = run_with_alarm(lambda: read_nt(cdoc), 30.0)
        sym_obs = _observed(tag, val, m)
        con_obs = _observed(ctag, cval, None)
        if sym_obs != con_obs:
            raise HarnessError("engine/impl disagreement on %r: symbolic %r vs concrete %r" % (cdoc, sym_obs, con_obs))
        res["witnesses"] += 1
        if len(res["samples"]) < 2:
            res["samples"].append(dict(document=cdoc, result=con_obs))

    ex.explore(fn, on_path)
    absorb_stats(res, ex)


def concretize_msg(e):
    try:
        return "".join(ch if isinstance(ch, str) else "?" for a in e.args for ch in (a.items if isinstance(a, SymStr) else str(a)))
    except Exception:  # noqa
        return type(e).__name__


def _observed(tag, val, m):
    if tag == "OK":
        triples, err = val
        if m is not None:
            triples = concretize(triples, m)
        return ["OK", [[list(x) for x in t] for t in triples], err]
    if tag == "HANG":
        return ["HANG"]
    return ["EXC", type(val).__name__]


# ------------------------------------------------------------------------- concrete replay (no engine)

def replay(args):
    """Engine-independent judgement on the real code: True if the violation reproduces."""
    doc, expected = args["doc"], args["expected"]
    tag, val = run_with_alarm(lambda: read_nt(doc), 5.0)
    if tag != "OK":
        print("reader %s on %r: %r" % (tag, doc, val))
        return True
    if args.get("c04_only"):
        return False
    triples, err = val
    want = [[(e["cls"], e["val"]) for e in tr] for tr in expected]
    got = [[tuple(x) for x in t] for t in triples]
    if err != 0 or got != want:
        print("document %r\n expected %r\n observed %r error_triples=%r" % (doc, want, got, err))
        return True
    return False


# ------------------------------------------------------------------------- skeleton lists

E_Q, E_B, E_N, E_U = '\\"', "\\\\", "\\n", "\\u00E9"
DT_INT = {"kind": "dt", "base": XSD, "post": "int"}
DT_CUSTOM = {"kind": "dt", "base": "http://ex.org/", "post": "dt"}
DT_FREE = {"kind": "dt", "base": "http://ex.org/t/", "k": 1}
DT_DBP = {"kind": "dt", "base": "http://dbpedia.org/datatype/", "post": "usDollar"}
LANG_EN = {"kind": "lang", "pre": "en"}
LANG_FREE = {"kind": "lang", "k": 2}
LANG_REGION = {"kind": "lang", "pre": "en-", "k": 1, "post": "B", "alnum": True}      # later subtags may hold digits (es-419, de-CH-1996)
NONE = {"kind": "none"}
S_IRI = {"kind": "iri", "base": "http://a.b/s"}
S_IRI_FREE = {"kind": "iri", "base": "http://a.b/s", "k": 2}
S_BN = {"kind": "bnode", "k": 2}
O_IRI_FREE = {"kind": "iri", "base": "http://a.b/o", "k": 2}
O_IRI_HASH = {"kind": "iri", "base": "http://a.b/o#", "k": 1, "post": "@_:x"}
O_BN = {"kind": "bnode", "k": 2}
O_BN_DOT = {"kind": "bnode", "k": 1, "mid": ".", "k2": 1}      # BLANK_NODE_LABEL may contain '.' (not at the end)
S_BN_DOT = {"kind": "bnode", "k": 1, "mid": ".1-", "k2": 1}


def _lit(body, suffix):
    return {"kind": "lit", "body": body, "suffix": suffix}


def _one(subj, obj, **kw):
    st = dict(subj=subj, obj=obj)
    st.update(kw)
    return {"stmts": [st]}


def skeletons(tier):
    F = None
    out = []
    suffixes = [("none", NONE), ("lang_en", LANG_EN), ("lang_free2", LANG_FREE), ("lang_region", LANG_REGION),
                ("dt_xsd_int", DT_INT), ("dt_custom", DT_CUSTOM), ("dt_free1", DT_FREE), ("dt_dbpedia", DT_DBP)]
    if tier == "quick":
        bodies = [[], [F], [F, F], [F, F, F], [E_Q], [F, E_Q], [E_Q, F], [E_B], [F, E_B], [E_B, F], [E_N, F], [E_U, F],
                  [E_Q, E_Q], [E_B, E_Q], [E_Q, E_B], [F, E_Q, F], [F, "^^", F], [F, "^^<", F], [F, "xsd:", F], [F, " .", F]]
    else:
        bodies = [[], [F], [F, F], [F, F, F], [F, F, F, F], [F, F, F, F, F], [E_Q], [F, E_Q], [E_Q, F], [E_B], [F, E_B], [E_B, F],
                  [E_N, F], [E_U, F], [E_Q, E_Q], [E_B, E_Q], [E_Q, E_B], [E_B, E_B], [F, E_Q, F], [F, E_B, F], [F, F, E_Q],
                  [E_Q, F, F], [F, F, E_B], [E_B, F, F], [F, E_Q, F, E_B], [E_Q, F, E_Q], [E_B, F, E_Q], [F, F, E_Q, F],
                  [F, F, F, E_Q], [E_Q, F, F, F], [F, F, F, E_B], [F, E_U, F, F],
                  [F, "^^", F], [F, "^^<", F], [F, "xsd:", F], [F, " .", F], [F, "rdf:", F, F], [F, F, "^^<", F], [F, "http://www.w3.org/2001/XMLSchema#", F]]
    if tier != "quick":     # deepest bound: 6 free characters, three suffix forms
        for sname, sfx in (("none", NONE), ("lang_en", LANG_EN), ("dt_custom", DT_CUSTOM)):
            out.append(("lit/FFFFFF/%s" % sname, _one(S_IRI, _lit([F] * 6, sfx))))
    for bi, body in enumerate(bodies):
        for sname, sfx in suffixes:
            bname = "".join("F" if x is None else {E_Q: "q", E_B: "b", E_N: "n", E_U: "u"}.get(x, "(%s)" % x) for x in body) or "empty"
            out.append(("lit/%s/%s" % (bname, sname), _one(S_IRI, _lit(body, sfx))))
    # separators, tails, comments
    small_bodies = [[F], [F, F]] if tier == "quick" else [[F], [F, F], [F, F, F], [F, E_Q, F]]
    for body in small_bodies:
        bname = "".join("F" if x is None else "q" for x in body)
        for sname, sfx in [("none", NONE), ("lang_en", LANG_EN), ("dt_xsd_int", DT_INT), ("dt_custom", DT_CUSTOM)]:
            for tail in ("dot", "tab_dot"):
                out.append(("tail/%s/%s/%s" % (tail, bname, sname), _one(S_IRI, _lit(body, sfx), tail=tail)))
            for ck in ((1, 2) if tier == "quick" else (1, 2, 3)):
                out.append(("comment%d/%s/%s" % (ck, bname, sname), _one(S_IRI, _lit(body, sfx), tail="sp_dot_comment", comment_k=ck)))
            for seps in (["\t", "\t"], ["  ", " "], [" ", "   "], ["\t ", " \t"]):
                out.append(("seps%r/%s/%s" % ("".join(seps), bname, sname), _one(S_IRI, _lit(body, sfx), seps=seps)))
    # node kinds
    for sname, s in [("iri", S_IRI_FREE), ("bnode", S_BN), ("bnodedot", S_BN_DOT)]:
        for oname, o in [("iri", O_IRI_FREE), ("irihash", O_IRI_HASH), ("bnode", O_BN), ("bnodedot", O_BN_DOT), ("lit", _lit([F], NONE)), ("litdt", _lit([F], DT_INT))]:
            for tail in ("sp_dot", "dot", "sp_dot_comment"):
                out.append(("nodes/%s/%s/%s" % (sname, oname, tail), _one(s, o, tail=tail, comment_k=1, pred={"base": "http://a.b/p", "k": 1})))
    # two statements: document order
    two = [(S_IRI, _lit([F], NONE), S_BN, O_IRI_FREE), (S_BN, O_BN, S_IRI, _lit([F], DT_INT)), (S_IRI, _lit([F], LANG_EN), S_IRI, _lit([E_Q], NONE))]
    for i, (s1, o1, s2, o2) in enumerate(two):
        for fin in (False, True):
            out.append(("two/%d/nl=%s" % (i, fin), {"stmts": [dict(subj=s1, obj=o1), dict(subj=s2, obj=o2)], "final_newline": fin}))
    return out


BOUNDS = {
    "quick": "single statements (and 3 two-statement documents): literal bodies of <= 3 free symbolic characters interleaved with <= 2 escapes "
             "(\\\" \\\\ \\n \\uXXXX) x 8 suffix forms; <= 2 free characters per IRI / blank-node label / language subtag, 1 in a datatype IRI, "
             "<= 2 in a trailing comment; separators blank/tab/multiple; tails ' .', '.', TAB '.', ' . # comment'",
    "thorough": "as quick with literal bodies of <= 5 free symbolic characters (<= 4 next to escapes; 6 for the suffix forms none / @en / custom datatype), comments of <= 3 characters",
}
