"""Shared runner: obligations -> process pool -> replay of counterexamples -> evidence + exit code.

Exit codes: 0 all obligations closed (KNOWN-FINDING lines allowed); 1 a replayed violation outside
known_findings.json (line "VIOLATION property=<id> replay=<path>"); 2 inconclusive / harness error.
"""
import hashlib
import importlib
import json
import multiprocessing as mp
import os
import signal
import subprocess
import sys
import time
import traceback

VERIF = os.path.dirname(os.path.dirname(os.path.abspath(__file__)))
EVIDENCE_DIR = os.path.join(VERIF, "evidence")
REPLAY_DIR = os.path.join(EVIDENCE_DIR, "replays")
FINDINGS_FILE = os.path.join(VERIF, "known_findings.json")
MAX_VIOLATIONS_PER_OBLIGATION = 3


def seed():
    try:
        return int(os.environ.get("VERIF_SEED", "0"))
    except ValueError:
        return 0


def ncpu():
    try:
        return max(1, min(16, len(os.sched_getaffinity(0))))
    except Exception:
        return max(1, min(16, os.cpu_count() or 1))


def load_findings(prop=None):
    with open(FINDINGS_FILE) as f:
        data = json.load(f)
    out = data.get("findings", [])
    if prop is not None:
        out = [x for x in out if prop in x.get("properties", [x.get("property")])]
    return out


class Alarm(BaseException):
    pass


def run_with_alarm(fn, seconds=2.0):
    """Run fn() under a re-arming wall-clock guard; returns ("OK", value) | ("EXC", exc) | ("HANG", None)."""
    def _h(signum, frame):
        raise Alarm()
    old = signal.signal(signal.SIGALRM, _h)
    signal.setitimer(signal.ITIMER_REAL, seconds, 0.05)
    try:
        try:
            return ("OK", fn())
        finally:
            signal.setitimer(signal.ITIMER_REAL, 0)
    except Alarm:
        return ("HANG", None)
    except Exception as e:  # noqa
        return ("EXC", e)
    finally:
        signal.setitimer(signal.ITIMER_REAL, 0)
        signal.signal(signal.SIGALRM, old)


def new_result(ob_id):
    return dict(ob=ob_id, paths=0, decisions=0, forks=0, solver_calls=0, solver_s=0.0, infeasible=0, cuts={},
                hangs=0, witnesses=0, reach=0, queries=0, violations=[], known={}, samples=[], error=None,
                inconclusive=None, wall_s=0.0, extra={})


def absorb_stats(res, ex):
    st = ex.stats
    res["paths"] += st["paths"]
    res["decisions"] += st["decisions"]
    res["forks"] += st["forks"]
    res["solver_calls"] += st["solver_calls"]
    res["solver_s"] += st["solver_s"]
    res["infeasible"] += st["infeasible"]
    res["hangs"] += st["hangs"]
    for k, v in st["cuts"].items():
        res["cuts"][k] = res["cuts"].get(k, 0) + v


def _worker(task):
    modname, funcname, ob_id, kwargs = task
    t0 = time.time()
    trace = os.environ.get("VERIF_TRACE")
    if trace:
        sys.stderr.write("TRACE start %s pid=%d t=%.0f\n" % (ob_id, os.getpid(), t0))
    res = new_result(ob_id)
    try:
        from symx import HarnessError, Inconclusive
        mod = importlib.import_module(modname)
        getattr(mod, funcname)(res, **kwargs)
    except BaseException as e:  # noqa
        name = type(e).__name__
        if name == "Inconclusive":
            res["inconclusive"] = str(e)
        else:
            res["error"] = "%s: %s\n%s" % (name, e, traceback.format_exc()[-1500:])
    res["wall_s"] = time.time() - t0
    if trace:
        sys.stderr.write("TRACE end %s pid=%d wall=%.1f\n" % (ob_id, os.getpid(), res["wall_s"]))
    return res


def run_pool(tasks, budget_s):
    """tasks: [(module, function, ob_id, kwargs)].  Returns list of results (same order not guaranteed)."""
    results = []
    t0 = time.time()
    n = min(ncpu(), max(1, len(tasks)))
    ctx = mp.get_context("fork")
    with ctx.Pool(processes=n, maxtasksperchild=50) as pool:
        it = pool.imap_unordered(_worker, tasks, chunksize=1)
        while True:
            remaining = budget_s - (time.time() - t0)
            if remaining <= 0:
                pool.terminate()
                r = new_result("<budget>")
                r["inconclusive"] = "wall budget of %ds exhausted with %d/%d obligations closed" % (
                    budget_s, len(results), len(tasks))
                results.append(r)
                break
            try:
                results.append(it.next(timeout=remaining))
            except StopIteration:
                break
            except mp.TimeoutError:
                continue
    return results


def violation_key(v):
    return hashlib.sha1(json.dumps(v.get("replay"), sort_keys=True, default=str).encode()).hexdigest()[:12]


def write_replay(prop, v):
    os.makedirs(REPLAY_DIR, exist_ok=True)
    path = os.path.join(REPLAY_DIR, "%s_%s.json" % (prop, violation_key(v)))
    with open(path, "w") as f:
        json.dump(dict(property=prop, obligation=v.get("ob"), what=v.get("what"), replay=v["replay"],
                       expected=v.get("expected"), observed=v.get("observed")), f, indent=1, default=str,
                  ensure_ascii=True)
    return path


def replay_file(path, timeout=120):
    """Fresh interpreter: returns (reproduced: bool|None, output)."""
    env = dict(os.environ)
    env["PYTHONPATH"] = os.pathsep.join([os.path.join(VERIF, ".pydeps"), os.environ.get("VERIF_REPO", "/repo"), VERIF])
    try:
        p = subprocess.run([sys.executable, "-m", "harness.replay", path], cwd=VERIF, env=env,
                           capture_output=True, text=True, timeout=timeout)
    except subprocess.TimeoutExpired:
        return True, "replay timed out (non-termination reproduces)"
    if p.returncode == 1:
        return True, p.stdout[-2000:]
    if p.returncode == 0:
        return False, p.stdout[-2000:]
    return None, (p.stdout + p.stderr)[-2000:]


def finish(prop, tier, results, meta, t0):
    """Aggregate, replay violations, print protocol lines, write evidence, return the exit code."""
    errors = [r for r in results if r["error"]]
    inconcl = [r for r in results if r["inconclusive"]]
    agg = dict(paths=0, decisions=0, forks=0, solver_calls=0, solver_s=0.0, infeasible=0, hangs=0, witnesses=0,
               reach=0, queries=0)
    cuts, known_seen, samples = {}, {}, []
    for r in results:
        for k in agg:
            agg[k] += r[k]
        for k, v in r["cuts"].items():
            cuts[k] = cuts.get(k, 0) + v
        for k, v in r["known"].items():
            known_seen[k] = known_seen.get(k, 0) + v
        for s in r["samples"]:
            if len(samples) < 12:
                samples.append(s)
    exit_code = 0
    # ---- pinned reproducers of recorded findings
    known_lines = []
    findings = load_findings(prop)
    from harness import replay as replay_mod
    for f in findings:
        if f.get("status") == "fixed":
            continue
        try:
            import contextlib
            import io
            with contextlib.redirect_stdout(io.StringIO()):
                still = replay_mod.replay_payload(f["reproducer"])
        except Exception as e:  # noqa
            still = None
            errors.append(dict(ob="finding:" + f["id"], error="reproducer failed to run: %r" % (e,)))
        if still:
            known_lines.append("KNOWN-FINDING: property=%s %s [%s]" % (prop, f["title"], f["id"]))
        elif still is False and known_seen.get(f["id"]):
            # pinned input no longer fails but the class is still hit: report the class
            known_lines.append("KNOWN-FINDING: property=%s %s [%s] (class still reachable)" % (prop, f["title"], f["id"]))
    for line in known_lines:
        print(line)
    # ---- new violations: replay before reporting
    confirmed, unconfirmed = [], []
    seen = set()
    for r in results:
        for v in r["violations"]:
            key = violation_key(v)
            if key in seen:
                continue
            seen.add(key)
            if len(confirmed) >= 8:
                break
            v["ob"] = r["ob"]
            path = write_replay(prop, v)
            ok, out = replay_file(path)
            if ok:
                confirmed.append((path, v))
            else:
                unconfirmed.append((path, v, out))
    for path, v in confirmed:
        print("VIOLATION property=%s replay=%s" % (prop, path))
        print("  what: %s" % (v.get("what"),))
        print("  input: %s" % (json.dumps(v["replay"].get("args"), default=str, ensure_ascii=True)[:600],))
    if confirmed:
        exit_code = 1
    if unconfirmed and not confirmed:
        for path, v, out in unconfirmed[:3]:
            print("HARNESS-ERROR: counterexample did not reproduce on the real code: %s (%s) %s" % (path, v.get("what"), out[-300:]))
        exit_code = 2
    if errors:
        for r in errors[:5]:
            print("HARNESS-ERROR: obligation %s: %s" % (r["ob"], r["error"]))
        exit_code = exit_code or 2
    if inconcl:
        for r in inconcl[:5]:
            print("INCONCLUSIVE: obligation %s: %s" % (r["ob"], r["inconclusive"]))
        exit_code = exit_code or 2
    n_obl = len([r for r in results if r["ob"] != "<budget>"])
    discharged = len([r for r in results if not r["error"] and not r["inconclusive"] and not r["violations"]
                      and r["ob"] != "<budget>"])
    if agg["paths"] == 0 and exit_code == 0:
        print("HARNESS-ERROR: no path completed")
        exit_code = 2
    if meta.get("require_reach", True) and exit_code == 0:
        lacking = [r["ob"] for r in results if r["reach"] == 0 and r["paths"] > 0 and not r["extra"].get("no_reach_needed")]
        if lacking:
            print("HARNESS-ERROR: reachability twin found no violable path in: %s" % (lacking[:5],))
            exit_code = 2
    wall = time.time() - t0
    coverage = dict(
        states=agg["paths"], transitions=max(agg["decisions"], 1) if agg["paths"] else 0,
        traces_validated_against_impl=agg["witnesses"],
        samples=samples or [{"note": "no sample recorded"}],
        exhaustive=False,
        obligations=n_obl, discharged=discharged,
        queries=agg["solver_calls"] , property_queries=agg["queries"], solver_s=round(agg["solver_s"], 3),
        forks=agg["forks"], infeasible_prefixes=agg["infeasible"], hangs_observed=agg["hangs"],
        reachability_witnesses=agg["reach"],
        cuts_outside_claim=cuts,
        known_findings_seen=known_seen,
        functions_encoded=meta.get("functions_encoded", []),
        bounds=meta.get("bounds", {}),
        stubs=meta.get("stubs", []),
        engine=meta.get("engine", "symx: path-forking symbolic execution of the real /repo functions on proxy values, z3 deciding every branch and every property query; exploration exhaustive within the bounds"),
        obligations_detail=[dict(ob=r["ob"], paths=r["paths"], decisions=r["decisions"], witnesses=r["witnesses"],
                                 violations=len(r["violations"]), known=r["known"], wall_s=round(r["wall_s"], 2),
                                 **({"extra": r["extra"]} if r["extra"] else {}))
                            for r in results][:400],
        explanation=meta.get("explanation", ""),
    )
    ev = dict(property_id=prop, tier=tier, seed=seed(), level="model_checking", coverage=coverage,
              assumptions=meta.get("assumptions", []), wall_s=round(wall, 2),
              violations=len(confirmed), exit_code=exit_code)
    os.makedirs(EVIDENCE_DIR, exist_ok=True)
    with open(os.path.join(EVIDENCE_DIR, "%s.json" % prop), "w") as f:
        json.dump(ev, f, indent=1, default=str, ensure_ascii=True)
    print("%s %s: obligations=%d discharged=%d paths=%d decisions=%d solver_calls=%d solver_s=%.1f witnesses=%d "
          "known=%s wall=%.1fs exit=%d" % (prop, tier, n_obl, discharged, agg["paths"], agg["decisions"],
                                           agg["solver_calls"], agg["solver_s"], agg["witnesses"],
                                           known_seen, wall, exit_code))
    return exit_code
