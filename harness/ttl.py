"""H-TTL: the real streaming Turtle reader executed on documents with symbolic characters (C07, C04).

Code under test (real, from /repo): BigTtlTriplesYielder.yield_triples / _process_line_2 / _clean_line /
_remove_comments_if_needed / _process_line_with_potential_triples / _next_line_token / _find_next_blank /
_find_next_unescaped_quotes / _count_prior_backslashes / _find_next_quoted_literal_ending / _parse_elem /
_parse_cornered_element / _process_prefix_line / _process_base_line, utils.uri.unprefixize_uri_mandatory,
decide_literal_type, parse_literal, utils.triple_yielders.tune_subj / tune_prop / tune_token.

An abstract document (statement groups with ';' and ',') is rendered under a layout vector (the separator
after every token); characters of local names, IRIs, labels, literal bodies and comments are symbolic.
Expected triples are the abstract ones.
"""
import z3

from symx import Explorer, Hang, HarnessError, SymStr, concretize, leak_scan
from symx.symstr import as_z3, _or
from . import shims
from .common import absorb_stats, run_with_alarm
from .nt import _caret_fail, XSD, XSD_STRING, LANG_STRING, c_iri, c_lit, c_comment, c_lang, _free, _mismatch_expr, concretize_msg, _observed

RDF_TYPE = "http://www.w3.org/1999/02/22-rdf-syntax-ns#type"
XSD_INTEGER = XSD + "integer"

FUNCTIONS = [
    "shexer.io.graph.yielder.big_ttl_triples_yielder.BigTtlTriplesYielder.yield_triples", "._process_line_2", "._clean_line",
    "._remove_comments_if_needed", "._process_line_with_potential_triples", "._assing_tmp_element_and_promote_state",
    "._next_line_token", "._find_next_blank", "._find_next_unescaped_quotes", "._count_prior_backslashes",
    "._find_next_quoted_literal_ending", "._parse_elem", "._parse_cornered_element", "._process_prefix_line", "._process_base_line",
    "shexer.utils.uri.unprefixize_uri_mandatory", "shexer.utils.uri.decide_literal_type", "shexer.utils.uri.parse_literal",
    "shexer.utils.triple_yielders.tune_subj", "tune_prop", "tune_token", "RawStringLineReader.read_lines",
]
ASSUMPTIONS = [
    "dialect of C07: whitespace-separated tokens, @prefix/@base on their own lines (house style), single-line double-quoted strings, "
    "no anonymous-node/collection syntax; untyped decimals/doubles/booleans excluded",
    "local-name characters in [A-Za-z0-9_] (first) and [A-Za-z0-9_-] or U+00C0..U+00D6 (rest); IRIREF / string / comment characters as in "
    "the Turtle grammar; escapes only as concrete skeleton pieces",
    "document delivered through raw_graph= (RawStringLineReader)",
]


def c_pn_first(c):      # PN_LOCAL: letters, digits, '_' and ':' (a colon is legal anywhere in a local name)
    return z3.Or(z3.And(c >= 65, c <= 90), z3.And(c >= 97, c <= 122), z3.And(c >= 48, c <= 57), c == 95, c == 58)


def c_pn_rest(c):
    return z3.Or(c_pn_first(c), c == 45, z3.And(c >= 0xC0, c <= 0xD6))


def _pn_local(ex, tag, k, colon=True):
    """k free characters of a prefixed-name local part; colon=False for relative IRI references (a ':' there would make them absolute IRIs)."""
    out = []
    for i in range(k):
        cs = _free(ex, "%s_%d" % (tag, i), 1, c_pn_first if i == 0 else c_pn_rest)
        if not colon:
            ex.add(cs[0] != 58)
        out.extend(cs)
    return out


def _term(ex, tag, t, env):
    """-> (token SymStr|str, expected dict(cls,val), parts)"""
    kind = t["t"]
    if kind == "pn":
        ns = env["prefixes"][t.get("prefix", "e")]
        local = SymStr(tuple(t.get("pre", "")) + tuple(_pn_local(ex, tag, t.get("k", 0))) + tuple(t.get("post", "")))
        return t.get("prefix", "e") + ":" + local, dict(cls="IRI", val=ns + local), dict(local=local)
    if kind == "abs":
        body = SymStr(tuple(t.get("base", "http://x.y/")) + tuple(_free(ex, tag, t.get("k", 0), c_iri)) + tuple(t.get("post", "")))
        return "<" + body + ">", dict(cls="IRI", val=body), dict(iri=body)
    if kind == "rel":
        rel = SymStr(tuple(t.get("lead", "")) + tuple(_pn_local(ex, tag, t.get("k", 1), colon=False)))
        return "<" + rel + ">", dict(cls="IRI", val=env["base"] + rel), dict(rel=rel)
    if kind == "a":
        return "a", dict(cls="IRI", val=RDF_TYPE), {}
    if kind == "rdftype":
        return "rdf:type", dict(cls="IRI", val=RDF_TYPE), {}
    if kind == "bn":
        label = SymStr(tuple("_:b") + tuple(_pn_local(ex, tag, t.get("k", 0), colon=False)))
        return label, dict(cls="BNode", val=label), dict(label=label)
    if kind == "int":
        return t["text"], dict(cls="Literal", val=XSD_INTEGER), {}
    if kind == "lit":
        items, n = [], 0
        for piece in t.get("body", []):
            if piece is None:
                items.extend(_free(ex, "%s_b%d" % (tag, n), 1, c_lit))
                n += 1
            else:
                items.extend(piece)
        body = SymStr(items)
        sfx = t.get("suffix", "none")
        parts = dict(body=body, suffix=sfx)
        q = '"' + body + '"'
        if sfx == "none":
            return q, dict(cls="Literal", val=XSD_STRING), parts
        if sfx == "lang":
            return q + "@" + SymStr(tuple("en") + tuple(_free(ex, tag + "_l", t.get("lang_k", 0), c_lang)) + tuple(t.get("lang_post", ""))), dict(cls="Literal", val=LANG_STRING), parts
        if sfx == "dt_xsd":
            return q + "^^xsd:" + t.get("dt_local", "int"), dict(cls="Literal", val=XSD + t.get("dt_local", "int")), parts
        if sfx == "dt_iri":
            dt = SymStr(tuple(t.get("dt_base", "http://ex.org/dt/")) + tuple(_free(ex, tag + "_d", t.get("dt_k", 0), c_iri)) + tuple(t.get("dt_post", "t")))
            parts["dt"] = dt
            return q + "^^<" + dt + ">", dict(cls="Literal", val=dt), parts
        if sfx == "dt_rel":     # datatype IRI relative to @base
            rel = SymStr(tuple("t") + tuple(_pn_local(ex, tag + "_d", t.get("dt_k", 1), colon=False)))
            parts["dt"] = env["base"] + rel
            return q + "^^<" + rel + ">", dict(cls="Literal", val=env["base"] + rel), parts
        if sfx == "dt_pn":
            local = SymStr(tuple("d") + tuple(_pn_local(ex, tag + "_d", t.get("dt_k", 0))))
            return q + "^^e:" + local, dict(cls="Literal", val=env["prefixes"]["e"] + local), parts
    raise HarnessError("bad term spec %r" % (t,))


def build_document(ex, spec):
    env = dict(prefixes=dict(spec.get("prefixes", {"e": "http://e.f/"})), base=spec.get("base"))
    header = ""
    for p, ns in env["prefixes"].items():
        header += "@prefix %s: <%s> .\n" % (p, ns)
    if spec.get("declare_xsd", True):
        header += "@prefix xsd: <%s> .\n" % XSD
    if spec.get("declare_rdf"):
        header += "@prefix rdf: <http://www.w3.org/1999/02/22-rdf-syntax-ns#> .\n"
    if env["base"]:
        header += "@base <%s> .\n" % env["base"]
    tokens, expected, parts_all = [], [], []
    ti = 0
    for gi, group in enumerate(spec["groups"]):
        subj, polist = group[0], group[1]
        gopts = group[2] if len(group) > 2 else {}
        if subj == "PREFIX":   # a directive line between statements: re-binds a prefix from here on
            pfx, ns = polist
            env["prefixes"][pfx] = ns
            tokens.append(("directive", "@prefix %s: <%s> ." % (pfx, ns)))
            continue
        s_tok, s_exp, s_parts = _term(ex, "g%d_s" % gi, subj, env)
        tokens.append(("subj", s_tok))
        for pi, (pred, objs) in enumerate(polist):
            p_tok, p_exp, p_parts = _term(ex, "g%d_p%d" % (gi, pi), pred, env)
            tokens.append(("pred", p_tok))
            for oi, obj in enumerate(objs):
                o_tok, o_exp, o_parts = _term(ex, "g%d_p%d_o%d" % (gi, pi, oi), obj, env)
                tokens.append(("obj", o_tok))
                expected.append((s_exp, dict(cls="Property", val=p_exp["val"]), o_exp))
                parts_all.append(dict(subj=s_parts, pred=p_parts, obj=o_parts, okind=obj["t"], skind=subj["t"], pkind=pred["t"]))
                last = oi == len(objs) - 1 and pi == len(polist) - 1
                if last and gopts.get("trailing_semicolon"):
                    tokens.append(("punct", ";"))        # Turtle allows 'p o ; .'
                tokens.append(("punct", "," if oi < len(objs) - 1 else (";" if pi < len(polist) - 1 else ".")))
    layout = spec["layout"]
    if len(layout) != len(tokens):
        raise HarnessError("layout length %d != %d tokens" % (len(layout), len(tokens)))
    doc = SymStr(tuple(header))
    comments = []
    for i, ((role, tok), sep) in enumerate(zip(tokens, layout)):
        doc = doc + tok
        if sep == "COMMENT":
            com = SymStr(_free(ex, "c%d" % i, spec.get("comment_k", 1), c_comment))
            comments.append(com)
            doc = doc + " #" + com + "\n"
        else:
            doc = doc + sep
    meta = dict(layout=layout, roles=[r for r, _ in tokens], comments=comments, triples=parts_all, spec=spec)
    return doc, expected, meta


def read_ttl(doc):
    from shexer.io.graph.yielder.big_ttl_triples_yielder import BigTtlTriplesYielder
    from .nt import _obs
    y = BigTtlTriplesYielder(raw_graph=doc)
    out = []
    for t in y.yield_triples():
        out.append(tuple(_obs(x) for x in t))
    return out, y.error_triples


# ------------------------------------------------------------------------- known-finding predicates

def _has(s, sub):
    return SymStr.lift(s).contains_expr(sub)


def _any_triple(meta, f):
    return _or([f(p) for p in meta["triples"]])


def _token_then_newline(meta, roles):
    """Some token of one of `roles` is directly followed by a line break in the layout."""
    for role, sep in zip(meta["roles"], meta["layout"]):
        if role in roles and sep != "COMMENT" and sep.lstrip(" \t").startswith("\n") and not sep.startswith(" "):
            return True
        if role in roles and sep in ("\n", "\n    "):
            return True
    return False


def _lits(m):
    return [p for p in m["triples"] if p["okind"] == "lit"]


def _lit_positions(m):
    """[(token index, triple parts)] of literal objects."""
    roles = m["roles"]
    spec_objs = [o for g in m["spec"]["groups"] if g[0] != "PREFIX" for _, objs in g[1] for o in objs]
    lits = _lits(m)
    out, oi, li = [], 0, 0
    for i, r in enumerate(roles):
        if r == "obj":
            if spec_objs[oi]["t"] == "lit":
                out.append((i, lits[li]))
                li += 1
            oi += 1
    return out


def _starts_line(m, i):
    return i > 0 and (m["layout"][i - 1] == "COMMENT" or "\n" in m["layout"][i - 1])


def _comment_on_literal_line(m):
    """A comment shares its line with a literal that is empty or starts the line: the quote regex [^\\]" cannot see
    such a literal's quotes."""
    lay = m["layout"]
    conds = []
    for li, p in _lit_positions(m):
        body = p["obj"]["body"]
        blind = len(body) == 0 or _starts_line(m, li) or SymStr.lift(body).endswith_expr("\\")
        if blind is False:
            continue
        j = li
        while j < len(lay):
            if lay[j] == "COMMENT":
                conds.append(blind)
                break
            if "\n" in lay[j]:
                break
            j += 1
    return _or(conds)


def _literal_starts_line(m):
    conds = []
    for li, p in _lit_positions(m):
        if _starts_line(m, li):
            body = p["obj"]["body"]
            conds.append(_or([_has(body, " #"), _has(body, "\t#")]))
    return _or(conds)


PREDICATES = {
    "custom_prefixed_datatype": lambda m: any(p["obj"]["suffix"] == "dt_pn" for p in _lits(m)),
    "body_contains_caret_caret": lambda m: _or([_caret_fail(p["obj"]["body"], False) for p in _lits(m)]),
    "typed_literal_mentions_builtin_prefix": lambda m: _or([_or(
        [_has(p["obj"]["body"], x) for x in ("xsd:", "rdf:", "dt:", "geo:")] + ([_has(p["obj"]["dt"], x) for x in ("xsd:", "rdf:", "dt:", "geo:")] if "dt" in p["obj"] else []))
        for p in _lits(m) if p["obj"]["suffix"] in ("dt_iri", "dt_xsd", "dt_pn")]),
    "datatype_iri_contains_at": lambda m: _or([_has(p["obj"]["dt"], "@") for p in _lits(m) if "dt" in p["obj"]]),
    "comment_on_literal_line": _comment_on_literal_line,
    "literal_starts_line_and_contains_blank_hash": lambda m: _literal_starts_line(m),
}


def known_expr(findings, meta):
    out = []
    for f in findings:
        if f.get("status") == "fixed" or f.get("family") != "ttl":
            continue
        out.append((f["id"], PREDICATES[f["predicate"]](meta)))
    return out


# ------------------------------------------------------------------------- obligation runner

def run_obligation(res, spec, findings, must_raise=False, check_c04_only=False):
    shims.install()
    ex = Explorer(max_paths=spec.get("max_paths", 60000), path_ops=spec.get("path_ops", 60000), path_wall_s=120)

    def fn(ex):
        doc, expected, meta = build_document(ex, spec)
        try:
            triples, err = read_ttl(doc)
            tag, val = "OK", (triples, err)
        except Hang:
            ex.stats["hangs"] += 1
            tag, val = "HANG", None
        except HarnessError:
            raise
        except Exception as e:  # noqa
            tag, val = "EXC", e
        return doc, expected, meta, tag, val

    def on_path(r, ex):
        doc, expected, meta, tag, val = r
        res["reach"] += 1
        if tag == "OK":
            if leak_scan(val):
                raise HarnessError("placeholder buffer leaked into the reader's output")
            bad, what = (False, "") if check_c04_only else _mismatch_expr(val[0], 0, expected)
        elif tag == "HANG":
            bad, what = True, "reader does not terminate"
        else:
            bad, what = True, "reader raised %s: %s" % (type(val).__name__, str(concretize_msg(val))[:120])
        kn = known_expr(findings, meta)
        res["queries"] += 1
        viol_model = None
        if bad is not False:
            bad_z = as_z3(bad)
            not_known = z3.Not(z3.Or([as_z3(e) for _, e in kn])) if kn else z3.BoolVal(True)
            m = ex.model(bad_z, not_known)
            if m is not None:
                viol_model = m
                if len(res["violations"]) < 3:
                    cdoc = doc.model_str(m)
                    cexp = [[dict(cls=e["cls"], val=concretize(e["val"], m)) for e in tr] for tr in expected]
                    res["violations"].append(dict(what=what, replay=dict(family="ttl", args=dict(doc=cdoc, expected=cexp)),
                                                  expected=cexp, observed=_observed(tag, val, m)))
            else:
                for fid, e in kn:
                    if ex.sat(bad_z, as_z3(e)):
                        res["known"][fid] = res["known"].get(fid, 0) + 1
        m = viol_model or ex.model()
        cdoc = doc.model_str(m)
        with shims.real_code():
            ctag, cval = run_with_alarm(lambda: read_ttl(cdoc), 1.0)
            if ctag == "HANG" and tag != "HANG":      # symbolic run terminated: second, generous attempt before reporting a disagreement (loaded machine)
                ctag, cval = run_with_alarm(lambda: read_ttl(cdoc), 30.0)
        sym_obs, con_obs = _observed(tag, val, m), _observed(ctag, cval, None)
        if sym_obs != con_obs:
            raise HarnessError("engine/impl disagreement on %r: symbolic %r vs concrete %r" % (cdoc, sym_obs, con_obs))
        res["witnesses"] += 1
        if len(res["samples"]) < 2:
            res["samples"].append(dict(document=cdoc, result=con_obs))

    ex.explore(fn, on_path)
    absorb_stats(res, ex)


def replay(args):
    doc, expected = args["doc"], args["expected"]
    tag, val = run_with_alarm(lambda: read_ttl(doc), 5.0)
    if args.get("must_raise"):
        if tag == "OK":
            print("out-of-dialect document %r was read without an error: %r" % (doc, val))
            return True
        return False
    if tag != "OK":
        print("reader %s on %r: %r" % (tag, doc, val))
        return True
    triples, err = val
    want = [[(e["cls"], e["val"]) for e in tr] for tr in expected]
    got = [[tuple(x) for x in t] for t in triples]
    if got != want:
        print("document %r\n expected %r\n observed %r" % (doc, want, got))
        return True
    return False


# ------------------------------------------------------------------------- skeleton lists

SEPS = [" ", "  ", "\t", "\n", "\n    ", " \n", "COMMENT"]
F = None
PN1, PN2 = {"t": "pn", "k": 1}, {"t": "pn", "k": 2}
E_Q, E_B = '\\"', "\\\\"


def _lit(body, suffix="none", **kw):
    d = {"t": "lit", "body": body, "suffix": suffix}
    d.update(kw)
    return d


def _house_layout(groups):
    """One predicate-object pair per line, punctuation preceded by a blank (the style of the repo's test files)."""
    lay = []
    for group in groups:
        subj, polist = group[0], group[1]
        lay.append(" ")
        for pi, (pred, objs) in enumerate(polist):
            lay.append(" ")
            for oi, obj in enumerate(objs):
                lay.append(" ")
                last_o = oi == len(objs) - 1
                lay.append(" " if not last_o else ("\n    " if pi < len(polist) - 1 else "\n"))
    return lay


def _default_layout(groups):
    n = sum(1 + sum(1 + 2 * len(objs) for _, objs in g[1]) for g in groups)
    lay = [" "] * n
    lay[-1] = "\n"
    return lay


def _variants(groups, max_nondefault):
    base = _default_layout(groups)
    outs = {tuple(base), tuple(_house_layout(groups))}
    n = len(base)
    idx = list(range(n))
    if max_nondefault >= 1:
        for i in idx:
            for s in SEPS:
                l = list(base)
                l[i] = s
                outs.add(tuple(l))
    if max_nondefault >= 2:
        for i in idx:
            for j in idx:
                if j <= i:
                    continue
                for s1 in ("\n", "COMMENT", "\t"):
                    for s2 in ("\n", "COMMENT", "  "):
                        l = list(base)
                        l[i], l[j] = s1, s2
                        outs.add(tuple(l))
    return sorted(outs)


def _lname(layout):
    return "".join({" ": "_", "  ": "2", "\t": "t", "\n": "n", "\n    ": "i", " \n": "m", "COMMENT": "c"}[s] for s in layout)


def skeletons(tier):
    out = []
    g_basic = [(PN2, [(PN1, [PN2]), (PN1, [_lit([F, F])])])]                       # s p o ; q "lit" .
    g_comma = [(PN1, [(PN1, [PN1, {"t": "bn", "k": 1}]), ({"t": "a"}, [PN1])])]    # s p o1 , _:b ; a C .
    g_two = [(PN1, [(PN1, [PN1])]), ({"t": "bn", "k": 1}, [(PN1, [_lit([F])])])]  # two statements
    g_abs = [({"t": "abs", "k": 1}, [({"t": "abs", "k": 1, "base": "http://x.y/p#"}, [{"t": "abs", "k": 1, "post": "/z"}])])]
    g_int = [(PN1, [(PN1, [{"t": "int", "text": "42"}]), (PN1, [_lit([F], "dt_xsd")])])]
    for txt in ("-89", "+3", "0", "007"):
        groups = [(PN1, [(PN1, [{"t": "int", "text": txt}, PN1])])]
        out.append(("int/%s" % txt, dict(groups=groups, layout=_default_layout(groups))))
        out.append(("int/%s/nl" % txt, dict(groups=groups, layout=[" ", " ", "\n", " ", " ", "\n"])))
    g_rebind = [(PN1, [(PN1, [PN1])]), ("PREFIX", ("e", "http://g.h/")), (PN1, [(PN1, [PN1])])]
    out.append(("rebind", dict(groups=g_rebind, layout=[" ", " ", " ", "\n", "\n", " ", " ", " ", "\n"])))
    g_semi = [(PN1, [(PN1, [PN1])], {"trailing_semicolon": True})]
    out.append(("trailing-semicolon", dict(groups=g_semi, layout=[" ", " ", " ", " ", "\n"])))
    out.append(("trailing-semicolon/nl", dict(groups=g_semi, layout=[" ", " ", " ", "\n", "\n"])))
    g_reuse = [(PN1, [(PN1, [PN1])]), (PN1, [(PN1, [PN1, PN1])])]                   # names may repeat across statements
    for gname, groups in [("basic", g_basic), ("comma", g_comma), ("two", g_two), ("abs", g_abs), ("int", g_int), ("reuse", g_reuse)]:
        for lay in _variants(groups, 1 if tier == "quick" else 2):
            out.append(("lay/%s/%s" % (gname, _lname(lay)), dict(groups=groups, layout=list(lay), comment_k=1)))
    # literal forms in the default layout and with the literal last on its line
    bodies = [[], [F], [F, F], [F, F, F], [E_Q], [F, E_Q], [E_Q, F], [E_B], [E_B, E_Q], [E_Q, E_B], [F, E_B], ["#", F], [" #", F], [F, " ;"], [F, " , "], [" . ", F]]
    if tier != "quick":
        bodies += [[F, F, F, F], [F, E_Q, F, F], [F, F, E_B, E_Q], [" #", F, F], [F, F, " #"], [E_B, E_B, F], [E_Q, " #", F]]
    sfxs = [("none", {}), ("lang", {}), ("lang", {"lang_k": 1}), ("lang", {"lang_post": "-GB"}), ("lang", {"lang_post": "-419"}), ("dt_xsd", {}), ("dt_iri", {}), ("dt_iri", {"dt_k": 1}), ("dt_pn", {"dt_k": 1})]
    for body in bodies:
        bname = "".join("F" if x is None else {E_Q: "q", E_B: "b"}.get(x, x.replace(" ", "_")) for x in body) or "empty"
        for sname, kw in sfxs:
            groups = [(PN1, [(PN1, [_lit(body, sname, **kw)])])]
            for lname, lay in (("sp", [" ", " ", " ", "\n"]), ("nl", [" ", " ", "\n", "\n"]), ("com", [" ", " ", " ", "COMMENT"]), ("com2", [" ", " ", "COMMENT", "\n"])):
                out.append(("lit/%s/%s%s/%s" % (bname, sname, "".join("%s%s" % kv for kv in kw.items()), lname),
                            dict(groups=groups, layout=lay, comment_k=1 if tier == "quick" else 2)))
    # @base handling
    for lead in ("",):
        groups = [({"t": "rel", "k": 1, "lead": lead}, [(PN1, [{"t": "rel", "k": 2, "lead": lead}])])]
        out.append(("base/rel%s" % lead, dict(groups=groups, layout=_default_layout(groups), base="http://b.c/d/")))
    groups = [(PN1, [(PN1, [_lit([F], "dt_rel")]), (PN1, [_lit([], "dt_rel", dt_k=2)])])]
    out.append(("base/relative-datatype", dict(groups=groups, layout=_default_layout(groups), base="http://b.c/types/")))
    # absolute https IRIs next to a base, and an https base
    groups = [({"t": "abs", "k": 1, "base": "https://x.y/"}, [({"t": "abs", "k": 1}, [{"t": "rel", "k": 1}, {"t": "abs", "k": 1, "base": "https://x.y/o"}])])]
    out.append(("base/https-abs", dict(groups=groups, layout=_default_layout(groups), base="http://b.c/d/")))
    groups = [({"t": "rel", "k": 1}, [(PN1, [{"t": "rel", "k": 2}]), ({"t": "abs", "k": 1, "base": "https://x.y/"}, [{"t": "abs", "k": 1}])])]
    out.append(("base/https-base", dict(groups=groups, layout=_default_layout(groups), base="https://b.c/d/")))
    groups = [({"t": "abs", "k": 1, "base": "urn:x:"}, [(PN1, [_lit([F], "dt_iri", dt_base="urn:t:")])])]
    out.append(("base/other-scheme-datatype", dict(groups=groups, layout=_default_layout(groups), base="http://b.c/d/")))
    groups = [({"t": "abs", "k": 1, "base": "urn:x:"}, [(PN1, [{"t": "abs", "k": 1, "base": "ftp://x.y/"}])])]
    out.append(("base/other-schemes", dict(groups=groups, layout=_default_layout(groups), base="http://b.c/d/")))
    groups = [({"t": "abs", "k": 1}, [({"t": "rdftype"}, [{"t": "rel", "k": 1}])])]
    out.append(("base/abs+rdftype", dict(groups=groups, layout=_default_layout(groups), base="http://b.c/", declare_rdf=True)))
    return out


BOUNDS = {
    "quick": "documents of <= 3 triples (5 abstract shapes: ';' + literal, ',' + blank node + 'a', two statements, absolute IRIs, integer + xsd: datatype); "
             "every layout with <= 1 non-default separator among blank / 2 blanks / TAB / LF / LF+indent / blank+LF / trailing comment at each token boundary, "
             "plus the house style; <= 2 free symbolic characters per local name, 1 per IRI/label/comment; literal bodies of <= 3 free characters with "
             "escapes and '#', ';', ',', '.' pieces x 7 suffix forms x 4 line placements; @base with relative IRIs",
    "thorough": "as quick with <= 2 non-default separators (bounded-exhaustive over pairs of boundaries), literal bodies of <= 4 free characters, comments of 2 characters",
}


# ------------------------------------------------------------------------- out-of-dialect documents: must raise rather than yield triples

RAW_DOCS = {
    "anonymous-node": ["e:s", F, " e:p [ e:q e:o", F, " ] .\n"],
    "collection": ["e:s", F, " e:p ( e:a", F, " e:b ) .\n"],
    "multiline-string": ["e:s", F, ' e:p """multi', F, '\nline""" .\n'],
    "single-quoted": ["e:s", F, " e:p 'x", F, "' .\n"],
    "blank-node-property-list-subject": ["[ e:p e:o", F, " ] e:q e:r", F, " .\n"],
    "sparql-style-prefix": ["PREFIX x: <http://x/>\nx:s", F, " e:p e:o .\n"],
}


def run_raw(res, name, findings=()):
    shims.install()
    pieces = RAW_DOCS[name]
    ex = Explorer(max_paths=20000, path_ops=6000, path_wall_s=120)

    def fn(ex):
        items = list("@prefix e: <http://e.f/> .\n")
        for i, p in enumerate(pieces):
            if p is None:
                items.extend(_free(ex, "f%d" % i, 1, c_pn_rest))
            else:
                items.extend(p)
        doc = SymStr(items)
        try:
            return doc, "OK", read_ttl(doc)
        except Hang:
            ex.stats["hangs"] += 1
            return doc, "HANG", None
        except HarnessError:
            raise
        except Exception as e:  # noqa
            return doc, "EXC", e

    def on_path(r, ex):
        doc, tag, val = r
        res["reach"] += 1
        res["queries"] += 1
        m = ex.model()
        cdoc = doc.model_str(m)
        if tag != "EXC" and len(res["violations"]) < 3:
            res["violations"].append(dict(what="out-of-dialect Turtle (%s) was %s instead of being rejected" % (name, "read: %r" % (concretize(val[0], m),) if tag == "OK" else "not terminating"),
                                          replay=dict(family="ttl", args=dict(doc=cdoc, expected=[], must_raise=True)), expected="an exception", observed=tag))
        with shims.real_code():
            ctag, cval = run_with_alarm(lambda: read_ttl(cdoc), 1.0)
            if ctag == "HANG" and tag != "HANG":      # symbolic run terminated: second, generous attempt before reporting a disagreement (loaded machine)
                ctag, cval = run_with_alarm(lambda: read_ttl(cdoc), 30.0)
        if (ctag == "EXC") != (tag == "EXC"):
            raise HarnessError("engine/impl disagreement on %r: symbolic %s vs concrete %s" % (cdoc, tag, ctag))
        res["witnesses"] += 1
        if len(res["samples"]) < 1:
            res["samples"].append(dict(document=cdoc, result=ctag))

    ex.explore(fn, on_path)
    absorb_stats(res, ex)
