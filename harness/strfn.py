"""H-STR: the real string utilities executed on strings with symbolic characters (C05a/b, C10b/c, C16a, C17).

Every obligation is a small object with
  build(ex)            -> (sym_args, concrete_skeleton)     inputs with symbolic characters
  call(args)           -> result                            the real /repo function (works on SymStr and on str)
  bad(args, result)    -> z3 Bool | bool                    satisfiable iff the property can fail on this path
  check(args, result)  -> problem string | None             the same property on concrete values (engine independent)
The runner explores all paths, asks z3 for a violating model on each, replays every path on a concrete model
against the un-shimmed function, and replays counterexamples in a fresh interpreter.
"""
import importlib
import random

import z3

from symx import Explorer, HarnessError, Hang, SymStr, concretize, leak_scan
from symx.symstr import as_z3, _or, _and
from . import shims
from .common import absorb_stats

EXNS = "http://ex.org/"
SHNS = "http://weso.es/shapes/"


def c_local(c):   # characters of a prefixed-name local part allowed by the property: [A-Za-z0-9_-]
    return z3.Or(z3.And(c >= 65, c <= 90), z3.And(c >= 97, c <= 122), z3.And(c >= 48, c <= 57), c == 95, c == 45)


def c_local_dot(c):
    return z3.Or(c_local(c), c == 46)


def c_iri(c):
    bad = [ord(x) for x in '<>"{}|^`\\']
    return z3.And(c > 0x20, *[c != b for b in bad])


def c_prefix(c):  # a-z and '-'
    return z3.Or(z3.And(c >= 97, c <= 122), c == 45)


def free(ex, name, k, constraint):
    out = []
    for i in range(k):
        c = ex.fresh_int("%s_%d" % (name, i), 0, 0x10FFFF)
        ex.add(z3.Or(c < 0xD800, c > 0xDFFF), constraint(c))
        out.append(c)
    return out


def sstr(*parts):
    items = []
    for p in parts:
        if isinstance(p, SymStr):
            items.extend(p.items)
        else:
            items.extend(p)     # a plain str (characters) or a list of characters / z3 Ints
    return SymStr(items)


def neg(e):
    return (not e) if isinstance(e, bool) else z3.Not(e)


def eq(a, b):
    return SymStr.lift(a).eq_expr(b)


def has(a, sub):
    return SymStr.lift(a).contains_expr(sub)


def _valid_local_conc(s):
    import re
    return re.fullmatch(r"[A-Za-z0-9_]([A-Za-z0-9_.-]*[A-Za-z0-9_-])?", s) is not None


def valid_local_expr(s):
    """prefixed-name local part: non-empty, no '/', '#', ':' , '<', '>', not ending in '.', not starting with '-' or '.'."""
    s = SymStr.lift(s)
    if len(s) == 0:
        return False
    conds = [neg(has(s, x)) for x in ("/", "#", "<", ">", " ", "%", "@")]
    conds.append(neg(s.endswith_expr(".")))
    conds.append(neg(s.startswith_expr(".")))
    conds.append(neg(s.startswith_expr("-")))
    return _and([as_z3(c) if not isinstance(c, bool) else c for c in conds])


# ------------------------------------------------------------------------- obligations

class Ob:
    name = "?"
    functions = []

    def build(self, ex):
        raise NotImplementedError

    def call(self, args):
        raise NotImplementedError

    def bad(self, args, result):
        raise NotImplementedError

    def check(self, args, result):
        raise NotImplementedError

    allowed_exceptions = ()


NSD = [("http://ex.org/", "ex"), ("http://ex.org/a/", "exa"), ("http://www.w3.org/2001/XMLSchema#", "xsd"), (SHNS, "")]
NSD_REV = [("http://ex.org/a/", "exa"), ("http://ex.org/", "ex"), ("http://www.w3.org/2001/XMLSchema#", "xsd"), (SHNS, "")]


class TuneToken(Ob):
    """BaseStatementSerializer.tune_token on namespace + local: the rendered token denotes the same IRI under the prefix map."""
    functions = ["BaseStatementSerializer.tune_token", "BaseStatementSerializer._prefixize_uri_if_possible"]

    def __init__(self, ns, k, nsd, dotted=False, name=None):
        self.ns, self.k, self.nsd, self.dotted = ns, k, nsd, dotted
        self.name = name or "tune_token/%s/k=%d/%s%s" % (ns, k, "rev" if nsd is NSD_REV else "fwd", "/dot" if dotted else "")

    def build(self, ex):
        cs = free(ex, "l", self.k, c_local)
        if self.dotted and self.k >= 3:
            cs[1] = "."
        ex.add(cs[0] != 45)
        return dict(iri=sstr(self.ns, [c if not isinstance(c, str) else c for c in cs]), nsd=dict(self.nsd))

    def call(self, a):
        from shexer.io.shex.formater.statement_serializers.base_statement_serializer import BaseStatementSerializer
        return BaseStatementSerializer.tune_token(a["iri"], a["nsd"])

    def _alternatives(self, a, result):
        iri = a["iri"]
        alts = [eq(result, "<" + iri + ">")]
        concrete_prefix = self.ns
        for ns, pfx in a["nsd"].items():
            if concrete_prefix.startswith(ns):
                rest = iri[len(ns):]
                alts.append(_and([eq(result, pfx + ":" + rest), valid_local_expr(rest)]))
        return alts

    def bad(self, a, result):
        return neg(_or(self._alternatives(a, result)))

    def check(self, a, result):
        iri = a["iri"]
        if result == "<" + iri + ">":
            return None
        for ns, pfx in a["nsd"].items():
            if iri.startswith(ns) and result == pfx + ":" + iri[len(ns):] and _valid_local_conc(iri[len(ns):]):
                return None
        return "tune_token(%r) = %r does not denote that IRI under %r" % (iri, result, a["nsd"])


class TuneShapeRef(TuneToken):
    """tune_token on a shape name '%<shapes_ns + local>': '@' + a name denoting that shape."""

    def __init__(self, k, shapes_ns=SHNS, nsd=NSD):
        self.k, self.sns, self.nsd = k, shapes_ns, nsd
        self.ns = shapes_ns
        self.dotted = False
        self.name = "tune_token/shape-ref/%s/k=%d" % (shapes_ns, k)

    def build(self, ex):
        cs = free(ex, "l", self.k, c_local)
        ex.add(cs[0] != 45)
        return dict(iri=sstr(self.sns, cs), token=sstr("%<", self.sns, cs, ">"), nsd=dict(self.nsd))

    def call(self, a):
        from shexer.io.shex.formater.statement_serializers.base_statement_serializer import BaseStatementSerializer
        return BaseStatementSerializer.tune_token(a["token"], a["nsd"])

    def bad(self, a, result):
        r = SymStr.lift(result)
        if len(r) == 0:
            return True
        return neg(_and([r.startswith_expr("@"), _or(self._alternatives(a, r[1:]))]))

    def check(self, a, result):
        if not result.startswith("@"):
            return "shape reference %r does not start with '@'" % result
        return TuneToken.check(self, a, result[1:])


class ShapeNameForClass(Ob):
    """build_shapes_name_for_class_uri(ns + local): '%<shapes_ns + local>' (label from the last path/fragment segment)."""
    functions = ["shexer.utils.shapes.build_shapes_name_for_class_uri"]

    def __init__(self, ns, k, tail=""):
        self.ns, self.k, self.tail = ns, k, tail
        self.name = "shape_name/%s/k=%d%s" % (ns, k, "/tail=" + tail if tail else "")

    def build(self, ex):
        cs = free(ex, "l", self.k, c_local)
        return dict(cls=sstr(self.ns, cs, self.tail), local=sstr(cs), sns=SHNS)

    def call(self, a):
        from shexer.utils.shapes import build_shapes_name_for_class_uri
        return build_shapes_name_for_class_uri(a["cls"], a["sns"])

    def bad(self, a, result):
        return neg(eq(result, "%<" + a["sns"] + a["local"] + ">"))

    def check(self, a, result):
        want = "%<" + a["sns"] + a["local"] + ">"
        return None if result == want else "shape name for %r is %r, expected %r" % (a["cls"], result, want)


class ShapesPrefix(Ob):
    """find_adequate_prefix_for_shapes_namespaces: a syntactically valid prefix that the user does not use."""
    functions = ["shexer.utils.namespaces.find_adequate_prefix_for_shapes_namespaces"]

    def __init__(self, taken, k):
        self.taken, self.k = taken, k
        self.name = "shapes_prefix/taken=%s/k=%d" % (",".join(repr(t) for t in taken), k)

    def build(self, ex):
        d = {}
        for i, t in enumerate(self.taken):
            d["http://u.org/%d/" % i] = SymStr(tuple(t))
        d["http://u.org/s/"] = sstr(free(ex, "p", self.k, c_prefix))
        return dict(nsd=d)

    def call(self, a):
        from shexer.utils.namespaces import find_adequate_prefix_for_shapes_namespaces
        random.seed(7)
        return find_adequate_prefix_for_shapes_namespaces(a["nsd"])

    def bad(self, a, result):
        r = SymStr.lift(result)
        clash = _or([eq(r, v) for v in a["nsd"].values()])
        if not r.concrete():
            raise HarnessError("symbolic prefix result")
        ok_syntax = self._valid(r.plain())
        return _or([clash, not ok_syntax])

    @staticmethod
    def _valid(p):
        import re
        return p == "" or re.fullmatch(r"[A-Za-z]([A-Za-z0-9_.-]*[A-Za-z0-9_-])?", p) is not None

    def check(self, a, result):
        if result in a["nsd"].values():
            return "shapes prefix %r collides with a user prefix" % result
        if not self._valid(result):
            return "shapes prefix %r is not a valid prefix" % result
        return None


class NamespaceFilter(Ob):
    """check_if_property_belongs_to_namespace_list(ns + tail, namespaces): true iff the predicate is a direct child of some namespace."""
    functions = ["shexer.utils.triple_yielders.check_if_property_belongs_to_namespace_list"]

    def __init__(self, base, k, namespaces, name=None):
        self.base, self.k, self.namespaces = base, k, namespaces
        self.name = name or "ns_filter/%s/k=%d/%s" % (base, k, "|".join(namespaces))

    def build(self, ex):
        cs = free(ex, "t", self.k, c_iri)
        return dict(prop=sstr(self.base, cs), namespaces=list(self.namespaces))

    def call(self, a):
        from shexer.utils.triple_yielders import check_if_property_belongs_to_namespace_list
        return check_if_property_belongs_to_namespace_list(a["prop"], a["namespaces"])

    def _oracle(self, a):
        p = SymStr.lift(a["prop"])
        alts = []
        for ns in a["namespaces"]:
            if len(ns) > len(p):
                continue
            tail = p[len(ns):]
            alts.append(_and([p.startswith_expr(ns), neg(has(tail, "/")), neg(has(tail, "#"))]))
        return _or(alts)

    def bad(self, a, result):
        o = self._oracle(a)
        return neg(o) if result else o

    def check(self, a, result):
        want = any(a["prop"].startswith(ns) and "/" not in a["prop"][len(ns):] and "#" not in a["prop"][len(ns):] for ns in a["namespaces"])
        return None if want == bool(result) else "namespace filter says %r for %r under %r" % (result, a["prop"], a["namespaces"])


class TargetClassName(Ob):
    """tune_target_classes_if_needed: full, <bracketed> and prefixed spellings of ns + local all give the full IRI."""
    functions = ["shexer.utils.target_elements.tune_target_classes_if_needed", "shexer.utils.uri.unprefixize_uri_if_possible", "shexer.utils.uri.remove_corners"]

    def __init__(self, style, k):
        self.style, self.k = style, k
        self.name = "target_class/%s/k=%d" % (style, k)

    def build(self, ex):
        cs = free(ex, "l", self.k, c_local)
        full = sstr(EXNS, cs)
        spelled = {"full": full, "brackets": "<" + full + ">", "prefixed": sstr("ex:", cs), "prefixed-nested": sstr("exa:", cs)}[self.style]
        if self.style == "prefixed-nested":
            full = sstr("http://ex.org/a/", cs)
        return dict(spelled=spelled, full=full, pmap={"e": "http://e.org/", "ex": EXNS, "exa": "http://ex.org/a/"})

    def call(self, a):
        from shexer.utils.target_elements import tune_target_classes_if_needed
        return tune_target_classes_if_needed([a["spelled"]], a["pmap"])

    def bad(self, a, result):
        if len(result) != 1:
            return True
        return neg(eq(result[0], a["full"]))

    def check(self, a, result):
        return None if list(result) == [a["full"]] else "target class %r resolved to %r, expected %r" % (a["spelled"], result, a["full"])


_UNICODE_SPACES = [0x85, 0xA0, 0x1680, 0x2028, 0x2029, 0x202F, 0x205F, 0x3000] + list(range(0x2000, 0x200B))


def c_iri_nospace(c):
    """IRIREF characters that str.strip() does not treat as white space (a line of a text file cannot end in them unnoticed)."""
    return z3.And(c_iri(c), *[c != w for w in _UNICODE_SPACES])


class _FakeStream:
    def __init__(self, lines):
        self._lines = lines

    def __enter__(self):
        return iter(self._lines)

    def __exit__(self, *a):
        return False


class TargetClassesFile(Ob):
    """read_target_classes_from_file: one class per line in full / <bracketed> / prefixed spelling; surrounding blanks and empty lines are ignored; every other
    character of the line - '#' included - belongs to the name.  Symbolic run: the module's `open` is replaced by a stream over the symbolic lines (stub);
    concrete runs write a real temporary file."""
    functions = ["shexer.utils.factories.triple_yielders_factory.read_target_classes_from_file", "shexer.utils.target_elements.tune_target_classes_if_needed"]
    PMAP = {"e": "http://e.org/", "ex": EXNS, "on": "http://ex.org/onto#"}

    def __init__(self, ns, style, k, layout):
        self.ns, self.style, self.k, self.layout = ns, style, k, layout
        self.name = "target_classes_file/%s/%s/k=%d/%s" % (ns, style, k, layout)

    def build(self, ex):
        cs = free(ex, "l", self.k, c_local if self.style == "prefixed" else c_iri_nospace)
        full = sstr(self.ns, cs)
        prefix = [p for p, n in self.PMAP.items() if n == self.ns]
        spelled = {"full": full, "brackets": "<" + full + ">", "prefixed": sstr((prefix[0] if prefix else "ex") + ":", cs)}[self.style]
        if self.style == "prefixed" and not prefix:
            raise HarnessError("no prefix for %s" % self.ns)
        other = "http://ex.org/Other"
        if self.layout == "alone":
            lines, want = [spelled + "\n"], [full]
        elif self.layout == "no-newline":
            lines, want = ["<" + other + ">\n", spelled], [other, full]
        elif self.layout == "padded":
            lines, want = ["\n", "  " + spelled + " \t\n", "   \n", other + "\n"], [full, other]
        else:
            raise HarnessError(self.layout)
        return dict(lines=lines, want=want, pmap=dict(self.PMAP))

    def call(self, a):
        from shexer.utils.factories import triple_yielders_factory as mod
        if any(isinstance(l, SymStr) for l in a["lines"]):
            mod.open = lambda path, mode="r": _FakeStream(a["lines"])
            try:
                return mod.read_target_classes_from_file("symbolic.txt", a["pmap"])
            finally:
                del mod.open
        import os
        import tempfile
        fd, path = tempfile.mkstemp(suffix=".txt")
        try:
            with os.fdopen(fd, "w", encoding="utf-8", newline="") as out:
                out.write("".join(a["lines"]))
            return mod.read_target_classes_from_file(path, a["pmap"])
        finally:
            os.unlink(path)

    def bad(self, a, result):
        if len(result) != len(a["want"]):
            return True
        return _or([neg(eq(r, w)) for r, w in zip(result, a["want"])])

    def check(self, a, result):
        return None if list(result) == list(a["want"]) else "target classes file %r read as %r, expected %r" % (a["lines"], result, a["want"])


class LongestCommonPrefix(Ob):
    functions = ["shexer.utils.uri.longest_common_prefix"]

    def __init__(self, shared, k1, k2):
        self.shared, self.k1, self.k2 = shared, k1, k2
        self.name = "lcp/%s/%d/%d" % (shared, k1, k2)

    def build(self, ex):
        return dict(u1=sstr(self.shared, free(ex, "a", self.k1, c_iri)), u2=sstr(self.shared, free(ex, "b", self.k2, c_iri)))

    def call(self, a):
        from shexer.utils.uri import longest_common_prefix
        return longest_common_prefix(a["u1"], a["u2"])

    def bad(self, a, result):
        r, u1, u2 = SymStr.lift(result), SymStr.lift(a["u1"]), SymStr.lift(a["u2"])
        n = len(r)
        common = _and([u1.startswith_expr(r) if n <= len(u1) else False, u2.startswith_expr(r) if n <= len(u2) else False])
        if n < len(u1) and n < len(u2):
            from symx.symstr import ch_eq
            maximal = neg(ch_eq(u1.items[n], u2.items[n]))
        else:
            maximal = True
        return neg(_and([common, maximal]))

    def check(self, a, result):
        import os
        want = os.path.commonprefix([a["u1"], a["u2"]])
        return None if result == want else "longest_common_prefix(%r, %r) = %r, expected %r" % (a["u1"], a["u2"], result, want)


class IriPattern(Ob):
    """AnnotateMinIriStrategy._determine_suitable_iri_pattern: longest prefix ending in ':', '/' or '#'; None if shorter than 3
    or a bare scheme (http://, https://)."""
    functions = ["AnnotateMinIriStrategy._determine_suitable_iri_pattern"]

    def __init__(self, base, k):
        self.base, self.k = base, k
        self.name = "iri_pattern/%s/k=%d" % (base, k)

    def build(self, ex):
        cs = free(ex, "c", self.k, c_iri)
        if self.base.endswith("//") and cs:      # instance IRIs have a non-empty authority
            ex.add(cs[0] != 58, cs[0] != 47, cs[0] != 35)
        return dict(lcp=sstr(self.base, cs))

    def call(self, a):
        from shexer.core.shexing.strategy.minimal_iri_strategy.annotate_min_iri_strategy import AnnotateMinIriStrategy
        return AnnotateMinIriStrategy(None)._determine_suitable_iri_pattern(a["lcp"])

    @staticmethod
    def _ref(s):
        idx = max(s.rfind(":"), s.rfind("/"), s.rfind("#"))
        if idx == -1:
            return None
        cand = s[:idx + 1]
        if len(cand) < 3 or cand in ("http://", "https://", "http:/", "https:/", "http:", "https:"):
            return None
        return cand

    def bad(self, a, result):
        s = SymStr.lift(a["lcp"])
        n = len(s)
        alts = []
        for cut in range(0, n + 1):     # candidate = s[:cut]; cut = 0 means "no separator"
            if cut == 0:
                cond = _and([neg(_or([eq(s[i:i + 1], x) for x in ":/#"])) for i in range(n)])
                want_none = True
            else:
                last = _or([eq(s[cut - 1:cut], x) for x in ":/#"])
                rest = _and([neg(_or([eq(s[i:i + 1], x) for x in ":/#"])) for i in range(cut, n)])
                cond = _and([last, rest])
                cand = s[:cut]
                bare = _or([eq(cand, x) for x in ("http://", "https://", "http:/", "https:/", "http:", "https:")])
                want_none = True if cut < 3 else bare
            if cond is False:
                continue
            if result is None:
                ok = want_none
            else:
                ok = _and([neg(want_none), eq(result, s[:cut])]) if cut > 0 else False
            alts.append(_and([cond, ok]))
        return neg(_or(alts))

    def check(self, a, result):
        want = self._ref(a["lcp"])
        return None if result == want else "IRI stem of %r is %r, expected %r" % (a["lcp"], result, want)


class MinIriFold(Ob):
    """ClassProfiler._update_shape_min_iri folded over 2-3 instance IRIs: the stored value is their longest common prefix."""
    functions = ["ClassProfiler._update_shape_min_iri", "ShapeExampleFeaturesDict.set_shape_min_iri/shape_min_iri", "shexer.utils.uri.longest_common_prefix"]

    def __init__(self, shared, ks):
        self.shared, self.ks = shared, ks
        self.name = "min_iri_fold/%s/%s" % (shared, ",".join(map(str, ks)))

    def build(self, ex):
        iris = []
        for j, k in enumerate(self.ks):
            cs = free(ex, "i%d" % j, k, c_iri)
            if self.shared == "" and cs:      # an absolute IRI starts with a scheme letter
                ex.add(z3.Or(z3.And(cs[0] >= 97, cs[0] <= 122), z3.And(cs[0] >= 65, cs[0] <= 90)))
            iris.append(sstr(self.shared, cs))
        return dict(iris=iris)

    def call(self, a):
        from shexer.core.profiling.class_profiler import ClassProfiler
        prof = ClassProfiler(triples_yielder=None, instances_dict={}, detect_minimal_iri=True)
        prof._class_counts["C"] = len(a["iris"])
        prof._init_class_features_dict()
        for iri in a["iris"]:
            prof._update_shape_min_iri("C", iri)
        return prof._shape_feature_examples.shape_min_iri("C")

    def bad(self, a, result):
        r = SymStr.lift(result)
        iris = [SymStr.lift(i) for i in a["iris"]]
        n = len(r)
        common = _and([(i.startswith_expr(r) if n <= len(i) else False) for i in iris])
        if all(n < len(i) for i in iris):
            from symx.symstr import ch_eq
            maximal = _or([neg(ch_eq(iris[0].items[n], i.items[n])) for i in iris[1:]])
        else:
            maximal = True
        return neg(_and([common, maximal]))

    def check(self, a, result):
        import os
        want = os.path.commonprefix(list(a["iris"]))
        return None if result == want else "min IRI of %r is %r, expected %r" % (a["iris"], result, want)


RDF_TYPE = "http://www.w3.org/1999/02/22-rdf-syntax-ns#type"
SM_NS = {"http://ex.org/": "ex", "http://ex.org/a/": "exa", SHNS: "sh"}


def c_local_noat(c):
    return c_local(c)


class ShapeMapItem(Ob):
    """FixedShapeMapParser._parse_shape_map_item_from_line: node selectors denote exactly that node; FOCUS selectors generate the
    single-variable query whose triple pattern has ?f in the FOCUS position, ?x for '_', rdf:type for 'a' and the full IRI otherwise;
    labels resolve to the full IRI."""
    functions = ["FixedShapeMapParser._parse_shape_map_item_from_line/_remove_trailing_comma", "NodeSelectorParser.parse_node_selector/_parse_unprefixed_node_selector/"
                 "_parse_prefixed_node_selector/_parse_focus_expression/_parse_subj_obj_focus_expression/_parse_uri_focus_expression/_turn_focus_exp_tokens_into_query/"
                 "_unprefix_uri/_namespaces_to_string/_parse_variable_in_single_variable_query", "ShapeMapLabelParser.parse_shape_map_label/_parse_prefixed_label",
                 "shexer.model.node_selector.NodeSelectorNoSparql/NodeSelectorSparql", "shexer.utils.dict.reverse_keys_and_values"]

    def __init__(self, selector, label, k, comma=False, spaces=" "):
        self.selector, self.label, self.k, self.comma, self.spaces = selector, label, k, comma, spaces
        self.name = "shape_map_item/%s/%s/k=%d%s%s" % ("+".join(selector), label, k, "/comma" if comma else "", "/2sp" if spaces != " " else "")

    def _iri(self, ex, tag, style):
        """-> (text in the shape map, full IRI)"""
        cs = free(ex, tag, self.k, c_local)
        if style == "full":
            return "<" + sstr(EXNS, cs) + ">", sstr(EXNS, cs)
        if style == "prefixed":
            return sstr("ex:", cs), sstr(EXNS, cs)
        if style == "nested":
            return sstr("exa:", cs), sstr("http://ex.org/a/", cs)
        raise HarnessError(style)

    def build(self, ex):
        kind = self.selector[0]
        exp = {}
        if kind == "node":
            text, full = self._iri(ex, "n", self.selector[1])
            exp = dict(kind="node", node=full)
        else:
            pos, pstyle, ostyle = self.selector[1:]
            if pstyle == "a":
                ptext, pfull = "a", RDF_TYPE
            else:
                ptext, pfull = self._iri(ex, "p", pstyle)
            if ostyle == "_":
                otext, ofull = "_", None
            else:
                otext, ofull = self._iri(ex, "o", ostyle)
            sp = self.spaces
            text = ("{FOCUS" + sp + ptext + sp + otext + "}") if pos == "subject" else ("{" + otext + sp + ptext + sp + "FOCUS}")
            exp = dict(kind="focus", pos=pos, pred=pfull, other=ofull)
        if self.label == "full":
            ltext, lfull = "<" + sstr(SHNS, free(ex, "L", self.k, c_local)) + ">", None
            exp["label"] = ltext
        else:
            cs = free(ex, "L", self.k, c_local)
            ltext = sstr("sh:", cs)
            exp["label"] = "%" + sstr(SHNS, cs)
        line = text + "@" + ltext + ("," if self.comma else "")
        return dict(line=line, exp=exp)

    def call(self, a):
        from shexer.io.shape_map.shape_map_parser import FixedShapeMapParser
        item = FixedShapeMapParser(namespaces_prefix_dict=dict(SM_NS), sgraph=None)._parse_shape_map_item_from_line(a["line"])
        sel = item.node_selector
        out = dict(label=item.shape_label, cls=type(sel).__name__)
        if out["cls"] == "NodeSelectorNoSparql":
            out["nodes"] = list(sel.get_target_nodes())
        else:
            out["query"] = sel.sparql_query_selector
            out["var"] = sel._id_variable_query
        return out

    def _expected_query(self, exp):
        header = "".join("PREFIX %s: <%s>\n" % (p, ns) for ns, p in SM_NS.items())
        other = "?x" if exp["other"] is None else "<" + exp["other"] + ">"
        s_, o_ = ("?f", other) if exp["pos"] == "subject" else (other, "?f")
        return header + "SELECT ?f WHERE {" + s_ + " <" + exp["pred"] + "> " + o_ + " . } "

    def bad(self, a, result):
        exp = a["exp"]
        conds = [eq(result["label"], exp["label"])]
        if exp["kind"] == "node":
            conds.append(result["cls"] == "NodeSelectorNoSparql" and len(result.get("nodes", [])) == 1)
            if conds[-1]:
                conds.append(eq(result["nodes"][0], exp["node"]))
        else:
            conds.append(result["cls"] == "NodeSelectorSparql")
            if conds[-1]:
                conds.append(eq(result["query"], self._expected_query(exp)))
                conds.append(eq(result["var"], "f"))
        return neg(_and(conds))

    def check(self, a, result):
        exp = a["exp"]
        if result["label"] != exp["label"]:
            return "label %r, expected %r" % (result["label"], exp["label"])
        if exp["kind"] == "node":
            return None if result.get("nodes") == [exp["node"]] else "selector %r denotes %r, expected [%r]" % (a["line"], result.get("nodes"), exp["node"])
        want = self._expected_query(exp)
        if result.get("query") != want or result.get("var") != "f":
            return "selector %r generates %r (variable %r), expected %r" % (a["line"], result.get("query"), result.get("var"), want)
        return None


def obligations(prop, tier):
    q = tier == "quick"
    out = []
    if prop == "C05":
        for nsd in (NSD, NSD_REV):
            for ns in ("http://ex.org/", "http://ex.org/a/", "http://other.org/x#"):
                for k in ((1, 2) if q else (1, 2, 3, 4)):
                    out.append(TuneToken(ns, k, nsd))
            out.append(TuneToken("http://ex.org/", 3, nsd, dotted=True))
        for k in ((1, 2) if q else (1, 2, 3, 4)):
            out.append(TuneShapeRef(k))
            out.append(TuneShapeRef(k, "http://ex.org/shapes/", [("http://ex.org/", "ex"), ("http://ex.org/shapes/", "")]))
            # labels whose namespace is not declared but a shorter one is: the remainder holds '#' or '/', so no prefixed name is possible
            out.append(TuneShapeRef(k, "http://ex.org/shapes#", [("http://ex.org/", "ex"), (SHNS, "")]))
            out.append(TuneShapeRef(k, "http://ex.org/sh/x", [("http://ex.org/", "ex"), ("http://ex.org/sh", "es"), (SHNS, "")]))
        for ns in ("http://ex.org/", "http://ex.org/ont#", "http://ex.org/a/b/"):
            for k in ((1, 2) if q else (1, 2, 3, 4)):
                out.append(ShapeNameForClass(ns, k))
        for taken in ([], [""], ["", "weso-s"], ["", "weso-s", "shapes"], ["", "weso-s", "shapes", "w-shapes"], ["weso-s", "w-shapes"]):
            for k in ((0, 1) if q else (0, 1, 2, 3)):
                out.append(ShapesPrefix(taken, k))
        out.append(ShapesPrefix(["", "weso-s", "shapes"], 8))
        out.append(ShapesPrefix(["", "weso-s", "w-shapes"], 6))
    if prop == "C16":
        lists = [["http://o.org/"], ["http://o.org/", "http://o.org/c/"], ["http://o.org/c/", "http://o.org/"], ["http://o.org/c", "http://x.org/#"]]
        for nsl in lists:
            for base in ("http://o.org/", "http://o.org/c/", "http://o.org/c", "http://x.org/"):
                for k in ((1, 2) if q else (1, 2, 3, 4)):
                    out.append(NamespaceFilter(base, k, nsl))
    if prop == "C10":
        for style in ("full", "brackets", "prefixed", "prefixed-nested"):
            for k in ((1, 2) if q else (1, 2, 3, 4)):
                out.append(TargetClassName(style, k))
        for ns in (EXNS, "http://ex.org/onto#"):
            for style in ("full", "brackets", "prefixed"):
                for layout in ("alone", "no-newline", "padded"):
                    for k in ((1, 2) if q else (1, 2, 3)):
                        out.append(TargetClassesFile(ns, style, k, layout))
        ks = (1,) if q else (1, 2, 3)
        for k in ks:
            for label in ("full", "prefixed"):
                for style in ("full", "prefixed", "nested"):
                    out.append(ShapeMapItem(("node", style), label, k))
                out.append(ShapeMapItem(("node", "full"), label, k, comma=True))
                for pos in ("subject", "object"):
                    for pstyle in ("a", "full", "prefixed"):
                        for ostyle in ("_", "full", "prefixed", "nested"):
                            out.append(ShapeMapItem(("focus", pos, pstyle, ostyle), label, k))
                out.append(ShapeMapItem(("focus", "subject", "prefixed", "prefixed"), label, k, spaces="  "))
                out.append(ShapeMapItem(("focus", "object", "a", "full"), label, k, comma=True))
    if prop == "C17":
        for shared in ("http://ex.org/", "http://ex.org/a", ""):
            for k1, k2 in (((1, 1), (2, 1), (2, 2)) if q else ((1, 1), (2, 1), (2, 2), (3, 2), (3, 3), (4, 2))):
                out.append(LongestCommonPrefix(shared, k1, k2))
        for base in ("http://ex.org/", "ht", "", "https://", "http://", "urn:x", "https://ex.org/a#"):
            for k in ((1, 2, 3, 4) if q else (1, 2, 3, 4, 5)):
                out.append(IriPattern(base, k))
        for base in ("https://", "http://", "http:/", "https:/", "http:", "https:", "h", "urn:", "a:"):
            out.append(IriPattern(base, 0))
        for ks in (((1, 1), (2, 1), (1, 1, 1)) if q else ((1, 1), (2, 1), (2, 2), (1, 1, 1), (2, 2, 1), (3, 2))):
            out.append(MinIriFold("http://ex.org/i", ks))
        for ks in (((1, 1, 1), (2, 2, 1)) if q else ((1, 1, 1), (2, 2, 1), (2, 2, 2), (1, 1, 1, 1))):
            out.append(MinIriFold("", ks))          # instances that may share no leading character at all (urn: next to http:)
    return out


def by_name(prop, name, module="harness.strfn"):
    import importlib
    mod = importlib.import_module(module)
    for tier in ("quick", "thorough"):
        for ob in mod.obligations(prop, tier):
            if ob.name == name:
                return ob
    raise HarnessError("unknown obligation %s/%s" % (prop, name))


def run_obligation(res, prop, name, findings, module="harness.strfn"):
    shims.install()
    ob = by_name(prop, name, module)
    conc_fn = getattr(importlib_import(module), "conc", None)
    ex = Explorer(max_paths=40000, path_ops=2000000, path_wall_s=180)

    def fn(ex):
        args = ob.build(ex)
        try:
            r = ob.call(args)
            tag = "OK"
        except Hang:
            ex.stats["hangs"] += 1
            r, tag = None, "HANG"
        except HarnessError:
            raise
        except Exception as e:  # noqa
            r, tag = e, "EXC"
        return args, tag, r

    def on_path(pr, ex):
        args, tag, r = pr
        res["reach"] += 1
        if tag == "OK":
            if leak_scan(r):
                raise HarnessError("placeholder buffer leaked into the result")
            bad = ob.bad(args, r)
            what = "%s: result violates the property" % ob.name
        else:
            bad = not (tag == "EXC" and isinstance(r, ob.allowed_exceptions))
            what = "%s: %s" % (ob.name, "does not terminate" if tag == "HANG" else "raised %s" % type(r).__name__)
        res["queries"] += 1
        vm = None
        if bad is not False:
            vm = ex.model(as_z3(bad))
            if vm is not None and len(res["violations"]) < 3:
                cargs = _conc(args, vm)
                res["violations"].append(dict(what=what, replay=dict(family="strfn", args=dict(prop=prop, name=ob.name, module=module, args=_jsonable(cargs))),
                                              expected="see what", observed=repr(_conc(r, vm))[:300] if tag == "OK" else tag))
        m = vm or ex.model()
        cargs = _conc(args, m)
        with shims.real_code():
            try:
                cr, ctag = ob.call(cargs), "OK"
            except Exception as e:  # noqa
                cr, ctag = e, "EXC"
        sym_obs = (tag, _norm(_conc(r, m)) if tag == "OK" else type(r).__name__ if tag == "EXC" else None)
        con_obs = (ctag, _norm(_plainify(cr)) if ctag == "OK" else type(cr).__name__)
        if sym_obs != con_obs:
            raise HarnessError("engine/impl disagreement on %r: symbolic %r vs concrete %r" % (cargs, sym_obs, con_obs))
        if vm is None and ctag == "OK":
            problem = ob.check(cargs, _plainify(cr))
            if problem:
                raise HarnessError("concrete and symbolic oracle disagree: %s" % problem)
        res["witnesses"] += 1
        if len(res["samples"]) < 1:
            res["samples"].append(dict(obligation=ob.name, args=cargs, result=repr(con_obs)[:200]))

    ex.explore(fn, on_path)
    absorb_stats(res, ex)


def importlib_import(module):
    return importlib.import_module(module)


def _conc(x, m):
    from symx import SymInt
    if isinstance(x, SymStr):
        return x.model_str(m)
    if isinstance(x, SymInt):
        return x.value(m)
    if isinstance(x, dict):
        return {_conc(k, m): _conc(v, m) for k, v in x.items()}
    if isinstance(x, list):
        return [_conc(i, m) for i in x]
    if isinstance(x, tuple):
        return tuple(_conc(i, m) for i in x)
    return x


def _norm(x):
    if isinstance(x, dict):
        return {k: _norm(v) for k, v in x.items()}
    if isinstance(x, (list, tuple)):
        return [_norm(v) for v in x]
    return x


def _jsonable(x):
    """JSON has no tuples and only string keys: encode dict keys/tuples reversibly."""
    if isinstance(x, dict):
        return {"__dict__": [[_jsonable(k), _jsonable(v)] for k, v in x.items()]}
    if isinstance(x, tuple):
        return {"__tuple__": [_jsonable(i) for i in x]}
    if isinstance(x, list):
        return [_jsonable(i) for i in x]
    return x


def _unjson(x):
    if isinstance(x, dict) and "__dict__" in x:
        return {_hashable(_unjson(k)): _unjson(v) for k, v in x["__dict__"]}
    if isinstance(x, dict) and "__tuple__" in x:
        return tuple(_unjson(i) for i in x["__tuple__"])
    if isinstance(x, list):
        return [_unjson(i) for i in x]
    return x


def _hashable(k):
    return tuple(k) if isinstance(k, list) else k


def _plainify(x):
    if isinstance(x, SymStr):
        return x if not x.concrete() else x.plain()
    if isinstance(x, list):
        return [_plainify(i) for i in x]
    if isinstance(x, tuple):
        return tuple(_plainify(i) for i in x)
    if isinstance(x, dict):
        return {(_plainify(k)): _plainify(v) for k, v in x.items()}
    return x


def replay(args):
    ob = by_name(args["prop"], args["name"], args.get("module", "harness.strfn"))
    args = dict(args, args=_unjson(args["args"]))
    try:
        r = ob.call(args["args"])
    except Exception as e:  # noqa
        if isinstance(e, ob.allowed_exceptions):
            return False
        print("%s raised %s: %s on %r" % (ob.name, type(e).__name__, e, args["args"]))
        return True
    problem = ob.check(args["args"], r)
    if problem:
        print(problem)
        return True
    return False
