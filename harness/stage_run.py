"""Obligation runner of H-STAGE: scenarios (one or several stage runs inside one symbolic path), oracles, witnesses, replay."""
from collections import OrderedDict

import z3

from symx import Explorer, HarnessError, SymReal, fork, instantiate
from . import rows as R
from . import shexc, shims
from . import stage as T
from .common import absorb_stats

ALT_NS = OrderedDict([(R.XSD, "xsd")])           # namespaces_dict without the data namespace: IRIs are written <...>


def _structure(name):
    return {s["name"]: s for s in T.structures("thorough") + T.namespace_structures() + T.label_clash_structures()}[name]


# ------------------------------------------------------------------------- scenarios

def plan_runs(prop, scenario, flags, ts, cfg):
    """-> list of run descriptions.  flags: base switch assignment (concrete bools); ts: list of SymReal / floats."""
    base = dict(flags=dict(flags), t=ts[0], report_mode=cfg.get("report_mode", "mixed"), decimals=cfg.get("decimals", -1),
                or_flags=tuple(cfg.get("or_flags", (True, False))), want_shacl=cfg.get("want_shacl", False), extra={}, graph="G", name="base")
    if scenario == "single":
        return [base]
    if scenario == "two-thresholds":
        b2 = dict(base, t=ts[1], name="t2")
        return [dict(base, name="t1"), b2]
    if scenario == "history":        # call 1 at t1, call 2 at t2 on the same Shaper, and a fresh Shaper at t2
        return [dict(base, name="first-call", keep=True), dict(base, t=ts[1], name="second-call-same-shaper", reuse=0), dict(base, t=ts[1], name="fresh-shaper")]
    if scenario.startswith("history+"):   # as "history", but in the real pipeline of the witness other public calls are made on the Shaper between the two calls
        return [dict(base, name="first-call", keep=True), dict(base, t=ts[1], name="second-call-same-shaper", reuse=0, real_pre_calls=tuple(scenario[8:].split("+"))),
                dict(base, t=ts[1], name="fresh-shaper")]
    if scenario == "delivery":       # the same graph through every delivery channel: real pipeline of the witness only (the symbolic stage never sees the channel)
        from .delivery import CHANNELS
        return [base] + [dict(base, name="via:" + ch, e2e_only=True, same_as=0, real_delivery=ch) for ch in (cfg.get("channels") or CHANNELS)]
    if scenario == "repeat":         # the same call twice on one Shaper
        return [dict(base, name="first-call", keep=True), dict(base, name="second-call-same-shaper", reuse=0)]
    if scenario == "ignore-ns":      # namespaces_to_ignore = deleting those triples from the input (class membership still from the full graph)
        return [dict(base, graph="D", name="triples-deleted"), dict(base, graph="D", name="namespaces_to_ignore", real_graph="G", e2e_only=True,
                                                                    real_extra={"namespaces_to_ignore": [T.IGNORED_NS]})]
    if scenario == "permuted":       # the same graph with its statements in another order
        runs = [dict(base, name="document-order"), dict(base, graph="P", name="permuted-order")]
        if cfg.get("real_context"):   # options outside the stage switched on for both real runs (judged on the real outputs)
            for r in runs:
                r["real_extra"] = dict(cfg["real_context"])
                r["e2e_only"] = True
        return runs
    if scenario == "inverse3":
        f_inv = dict(flags, inverse_paths=True)
        f_dir = dict(flags, inverse_paths=False)
        return [dict(base, flags=f_inv, name="inverse-on-G"), dict(base, flags=f_dir, name="direct-on-G"),
                dict(base, flags=f_dir, graph="R", name="direct-on-reverse(G)")]
    if scenario.startswith("pair:"):
        opt = scenario[5:]
        a, b = dict(base, name="A"), dict(base, name="B:" + opt)
        if opt == "disable_comments":
            b["extra"] = {"disable_comments": True}
        elif opt.startswith("decimals="):
            b["decimals"] = int(opt.split("=")[1])
        elif opt.startswith("report="):
            b["report_mode"] = opt.split("=")[1]
        elif opt == "namespaces_dict":
            b["extra"] = {"namespaces_dict": ALT_NS}
        elif opt == "shapes_namespace":
            b["extra"] = {"shapes_namespace": "http://other.org/sh/"}
        elif opt in T.SWITCHES:
            a["flags"] = dict(flags, **{opt: True})
            b["flags"] = dict(flags, **{opt: False})
        elif opt.startswith("e2e:"):
            # options whose code is outside the symbolically executed stage: applied to the real pipeline of the witness only
            import json as _json
            b["real_extra"] = _json.loads(opt[4:])
            b["e2e_only"] = True
        elif opt == "disable_or_statements":
            b["or_flags"] = (False, False)
        elif opt == "allow_redundant_or":
            a["or_flags"] = (False, False)
            b["or_flags"] = (False, True)
        else:
            raise HarnessError("unknown paired option %r" % opt)
        if cfg.get("real_context"):
            # options outside the symbolically executed stage switched on for BOTH runs of the real pipeline (the pair is then judged on the real outputs)
            for r in (a, b):
                r["real_extra"] = dict(cfg["real_context"], **r.get("real_extra", {}))
                r["e2e_only"] = True
        return [a, b]
    raise HarnessError("unknown scenario %r" % scenario)


def scenario_fixed_flags(scenario):
    if scenario == "inverse3":
        return {"inverse_paths": None}   # decided per run
    if scenario.startswith("pair:") and scenario[5:] in T.SWITCHES:
        return {scenario[5:]: None}
    return {}


# ------------------------------------------------------------------------- the runner

def run_obligation(res, prop, st_name, N, findings, scenario="single", cfg=None):
    from . import stage_props as P
    shims.install()
    cfg = dict(cfg or {})
    st = _structure(st_name)
    fixed = dict(cfg.get("fixed_flags", {}))
    n_thr = 2 if scenario in ("two-thresholds", "history") or scenario.startswith("history+") else 1
    fixed_thr = cfg.get("fixed_threshold")
    active = {f["id"] for f in findings if f.get("status") != "fixed" and f.get("family") == "stage"}
    ex = Explorer(max_paths=cfg.get("max_paths", 60000), path_ops=10 ** 7, path_wall_s=120)
    judges = P.JUDGES[prop]
    skip = scenario_fixed_flags(scenario)
    needs_inverse = scenario == "inverse3"
    shapemap = st.get("mode") == "shapemap"
    targets = cfg.get("targets")            # class local names: target_classes selection instead of all_classes_mode

    def fn(ex):
        flags = {}
        for s in T.SWITCHES:
            if s in fixed:
                flags[s] = fixed[s]
            elif s in skip:
                flags[s] = False
            elif s == "inverse_paths" and not st["inverse_ok"]:
                flags[s] = False
            else:
                flags[s] = fork(ex.fresh_bool(s))
        if fixed_thr is not None:
            ts = [fixed_thr] * n_thr
        else:
            ts = [SymReal(ex.fresh_real("t%d" % i, 0, 1)) for i in range(n_thr)]
            if scenario == "two-thresholds":
                ex.add(ts[0].e <= ts[1].e)
        runs = plan_runs(prop, scenario, flags, ts, cfg)
        syms = {}
        for r in runs:
            key = (r["graph"], r["flags"]["inverse_paths"])
            if key not in syms:
                syms[key] = T.build_symbolic(ex, st, N, r["flags"]["inverse_paths"], reverse=(r["graph"] == "R"), permuted=(r["graph"] == "P"), targets=targets, dropped=(r["graph"] == "D"))
            r["sym"] = syms[key]
            if r.get("same_as") is not None:       # nothing to execute symbolically for this run: it differs from run `same_as` outside the stage only
                b = runs[r["same_as"]]
                r.update(text=b["text"], shacl=b["shacl"], tag=b["tag"], err=b["err"])
                continue
            try:
                extra = dict(r["extra"])
                if targets is not None:
                    extra["target_classes"] = [R.EX + c for c in targets]
                if shapemap:
                    extra["shape_map_raw"] = R.shapemap_text(T.permuted_rows(st["rows"]) if r["graph"] == "P" else st["rows"], None, representative=True)
                kept = [] if r.get("keep") else None
                reuse = runs[r["reuse"]]["shaper"] if r.get("reuse") is not None else None
                r["text"], r["shacl"] = T.run_real_stage(r["sym"]["profile"], r["sym"]["counts"], r["flags"], r["t"], r["report_mode"], r["decimals"],
                                                         r["or_flags"], r["want_shacl"], extra, reuse=reuse, keep=kept)
                if kept:
                    r["shaper"] = kept[0]
                r["tag"], r["err"] = "OK", None
            except HarnessError:
                raise
            except Exception as e:  # noqa
                r["tag"], r["err"], r["text"], r["shacl"] = "EXC", (type(e).__name__, str(e)[:120], T._innermost_frame(e)), None, None
        return dict(runs=runs, ts=ts, flags=flags, structure=st, N=N, scenario=scenario, cfg=cfg)

    cands_cache = {}
    pending_disagreements = []

    def payload(ctx, vals, thrs, what):
        return dict(what=what, replay=dict(family="stage", args=dict(prop=prop, structure=st_name, N=N, values=vals, thresholds=[repr(x) for x in thrs],
                                                                      flags=ctx["flags"], scenario=scenario, cfg=cfg)),
                    expected=what, observed="\n----\n".join((r["text"] or str(r["err"]))[:400] for r in ctx["runs"]))

    def on_path(ctx, ex):
        res["reach"] += 1
        runs = ctx["runs"]
        sym0 = runs[0]["sym"]
        sizes = [s for r in runs for s in r["sym"]["counts"].values()]
        key = tuple(sorted(str(s if isinstance(s, int) else (s.lo, s.hi)) for s in sizes))
        if key not in cands_cache:
            cands_cache[key] = T.threshold_candidates(sizes)
        cands = cands_cache[key]
        sym_ts = [t for t in ctx["ts"] if isinstance(t, SymReal)]
        items = []
        for r in runs:
            if r["tag"] == "EXC":
                name, msg, frame = r["err"]
                cls = "STAGE-shacl-shapemap-crash" if (shapemap and r["want_shacl"] and "shacl_serializer" in frame) else None
                if cls is None and r["want_shacl"] and not r["or_flags"][0] and ("fixed_prop_choice_statement" in frame or "shacl_serializer" in frame):
                    cls = "STAGE-shacl-or-statements-crash"
                items.append(("extraction raised %s (%s) at %s [run %s]" % (name, msg, frame, r["name"]), True, cls))
                r["schema"], r["parse_problem"] = None, "no output"
            else:
                r["schema"], r["parse_problem"] = P.parse_or_problem(r["text"])
        if not any(r["tag"] == "EXC" for r in runs):
            for j in judges:
                items.extend(j(ctx, ex))
        viol = None
        for what, bad, cls in items:
            if bad is False:
                continue
            res["queries"] += 1
            bad_z = z3.BoolVal(True) if bad is True else bad
            if not ex.sat(bad_z):
                continue
            thrs, m = T.pick_doubles(ex, sym_ts, cands, (bad_z,)) if sym_ts else ([], ex.model(bad_z))
            if m is None:
                continue  # violable only for thresholds that are not doubles
            if cls is not None and cls in active:
                res["known"][cls] = res["known"].get(cls, 0) + 1
                continue
            viol = (thrs, m, what)
            break
        if viol is not None:
            thrs, m, what = viol
        else:
            thrs, m = T.pick_doubles(ex, sym_ts, cands) if sym_ts else ([], ex.model())
            what = None
        if m is None:
            res["extra"]["paths_without_double_threshold"] = res["extra"].get("paths_without_double_threshold", 0) + 1
            return
        vals = {v: m.eval(x.e, model_completion=True).as_long() for v, x in sym0["xs"].items()}
        thr_of = {}
        si = 0
        for i, t in enumerate(ctx["ts"]):
            if isinstance(t, SymReal):
                thr_of[id(t)] = thrs[si]
                si += 1
        all_thr = [thr_of.get(id(t), t) for t in ctx["ts"]]
        if what is not None and len(res["violations"]) < 3:
            res["violations"].append(payload(ctx, vals, all_thr, what))
        # ---- end-to-end witness: every run of the scenario through the whole real pipeline on the concrete graph
        triples = R.generate_triples(st["rows"], vals, shapemap=shapemap)
        reals = []
        for r in runs:
            thr = thr_of.get(id(r["t"]), r["t"])
            doc = R.to_ntriples(_graph_variant(st, vals, triples, r.get("real_graph", r["graph"]), shapemap))
            extra = dict(r["extra"])
            extra.update(r.get("real_extra", {}))
            if targets is not None:
                extra["target_classes"] = [R.EX + c for c in targets]
            if shapemap:
                extra["shape_map_raw"] = R.shapemap_text(T.permuted_rows(st["rows"]) if r["graph"] == "P" else st["rows"], vals)
            try:
                kept = [] if r.get("keep") else None
                reuse = reals[r["reuse"]].get("shaper") if r.get("reuse") is not None else None
                with shims.real_code():
                    rt, rs = T.run_real_pipeline(doc, r["flags"], thr, r["report_mode"], r["decimals"], r["or_flags"], r["want_shacl"], extra, reuse=reuse, keep=kept, pre_calls=r.get("real_pre_calls", ()), delivery=_delivery(r, st, vals, triples, shapemap))
                reals.append(dict(tag="OK", text=rt, shacl=rs, thr=thr, run=r, shaper=kept[0] if kept else None))
            except Exception as e:  # noqa
                reals.append(dict(tag="EXC", text=None, shacl=None, thr=thr, run=r, err=type(e).__name__))
        mismatch = None
        for r, real in zip(runs, reals):
            if real["tag"] == "EXC" and r["tag"] != "EXC" and viol is None:
                # the whole real pipeline raises on this concrete graph / configuration although the stage alone did not (readers, profiler, example and
                # stem bookkeeping, serializer options applied end to end only): a crash on a valid input, confirmed by the fresh-interpreter replay
                if len(res["violations"]) < 3:
                    res["violations"].append(payload(ctx, vals, all_thr, "end-to-end witness: extraction raised %s [run %s]" % (real["err"], r["name"])))
                res["witnesses"] += 1
                return
            if r["tag"] == "EXC" or real["tag"] == "EXC":
                if not (r["tag"] == "EXC" and real["tag"] == "EXC" and real["err"] == r["err"][0]):
                    mismatch = "run %s: symbolic %r vs real %r" % (r["name"], r["err"] or "returned", real.get("err") or "returned")
                continue
            inst = instantiate(r["text"], ex.tokens, m)
            if r.get("e2e_only"):
                continue       # the option acts outside the symbolic stage: this run is judged by the concrete oracle only
            if inst != real["text"]:
                mismatch = "run %s:\n--- symbolic (instantiated)\n%s\n--- real pipeline\n%s" % (r["name"], inst, real["text"])
            elif r["want_shacl"] and not _same_graph(r["shacl"], real["shacl"]):
                mismatch = "run %s: SHACL graphs differ\n%s\n---\n%s" % (r["name"], r["shacl"], real["shacl"])
        inst_over = R.shapemap_instances(st["rows"], vals) if shapemap else None
        if targets is not None:
            inst_over = R.refprof(triples, targets={R.EX + c for c in targets})[0]
        known_hits = {}
        problems = [] if any(x["tag"] == "EXC" for x in reals) else concrete_problems(prop, scenario, triples, reals, ctx["flags"], st["tags"], active, cfg, inst_over, known_hits)
        for k_, v_ in known_hits.items():
            res["known"][k_] = res["known"].get(k_, 0) + v_
        if mismatch is not None:
            if problems and viol is None:
                # a real regression in code that H-STAGE does not execute symbolically (profiler, tracker, readers, glue)
                if len(res["violations"]) < 3:
                    res["violations"].append(payload(ctx, vals, all_thr, "end-to-end witness: " + problems[0]))
                res["witnesses"] += 1
                return
            # The stage run on the reference profile and the whole real pipeline differ on this input, and the property's own oracle sees nothing wrong with the
            # real output *here* (e.g. only figures differ, which is another property's business).  Keep exploring: if another path of this obligation shows a
            # violation of the property that is what gets reported; otherwise the obligation ends inconclusive (HarnessError below) - never silently.
            if len(pending_disagreements) < 3:
                pending_disagreements.append("engine/impl disagreement on x=%r thresholds=%r flags=%r: %s" % (vals, all_thr, ctx["flags"], mismatch))
            return
        if viol is None and problems and any(r.get("e2e_only") for r in runs):
            if len(res["violations"]) < 3:
                res["violations"].append(payload(ctx, vals, all_thr, "end-to-end witness: " + problems[0]))
            res["witnesses"] += 1
            return
        if viol is None and problems:
            raise HarnessError("concrete oracle and symbolic oracle disagree on x=%r thresholds=%r flags=%r: %s" % (vals, all_thr, ctx["flags"], problems[:2]))
        res["witnesses"] += 1
        if len(res["samples"]) < 1:
            res["samples"].append(dict(structure=st_name, N=N, scenario=scenario, multiplicities=vals, thresholds=all_thr, flags=ctx["flags"],
                                       output=(reals[0]["text"] or "")[:700]))

    ex.explore(fn, on_path)
    absorb_stats(res, ex)
    res["extra"]["structure"] = [r.to_json() for r in st["rows"]]
    if pending_disagreements and not res["violations"]:
        raise HarnessError(pending_disagreements[0])


def _delivery(r, st, vals, triples, shapemap):
    if r.get("real_delivery") is None:
        return None
    return (r["real_delivery"], _graph_variant(st, vals, triples, r.get("real_graph", r["graph"]), shapemap))


def _graph_variant(st, vals, triples, graph, shapemap):
    if graph == "R":
        return T.reverse_triples(triples)
    if graph == "P":
        return R.generate_triples(T.permuted_rows(st["rows"]), vals, shapemap=shapemap)
    if graph == "D":
        return T.drop_ignored(triples)
    return triples


def _same_graph(a, b):
    import rdflib
    from rdflib.compare import isomorphic
    ga, gb = rdflib.Graph(), rdflib.Graph()
    ga.parse(data=a, format="turtle")
    gb.parse(data=b, format="turtle")
    return isomorphic(ga, gb)


def concrete_problems(prop, scenario, triples, reals, flags, tags, active, cfg, instances=None, known_hits=None):
    from . import stage_props as P
    parsed = []
    for x in reals:
        try:
            parsed.append(shexc.parse(x["text"]))
        except shexc.ShExSyntaxError as e:
            return ["ShExC output does not parse: %s" % e]
    return P.CONCRETE[prop](dict(triples=triples, reals=reals, schemas=parsed, flags=flags, tags=list(tags), active=active, scenario=scenario, cfg=cfg,
                                 instances=instances, known_hits=known_hits))


def replay(args):
    """Concrete replay on the real, un-instrumented pipeline, judged by the concrete oracle."""
    st = _structure(args["structure"])
    shapemap = st.get("mode") == "shapemap"
    triples = R.generate_triples(st["rows"], args["values"], shapemap=shapemap)
    cfg = args.get("cfg") or {}
    thrs = [float(x) for x in args["thresholds"]]
    runs = plan_runs(args["prop"], args["scenario"], args["flags"], thrs, cfg)
    reals = []
    for r in runs:
        doc = R.to_ntriples(_graph_variant(st, args["values"], triples, r.get("real_graph", r["graph"]), shapemap))
        extra = dict(r["extra"])
        extra.update(r.get("real_extra", {}))
        if cfg.get("targets") is not None:
            extra["target_classes"] = [R.EX + c for c in cfg["targets"]]
        if shapemap:
            extra["shape_map_raw"] = R.shapemap_text(T.permuted_rows(st["rows"]) if r["graph"] == "P" else st["rows"], args["values"])
        try:
            kept = [] if r.get("keep") else None
            reuse = reals[r["reuse"]].get("shaper") if r.get("reuse") is not None else None
            rt, rs = T.run_real_pipeline(doc, r["flags"], r["t"], r["report_mode"], r["decimals"], r["or_flags"], r["want_shacl"], extra, reuse=reuse, keep=kept, pre_calls=r.get("real_pre_calls", ()), delivery=_delivery(r, st, args["values"], triples, shapemap))
        except Exception as e:  # noqa
            print("extraction raised %s: %s [run %s]\ndocument:\n%s" % (type(e).__name__, e, r["name"], doc))
            return True
        reals.append(dict(tag="OK", text=rt, shacl=rs, thr=r["t"], run=r, shaper=kept[0] if kept else None))
    inst_over = R.shapemap_instances(st["rows"], args["values"]) if shapemap else None
    if cfg.get("targets") is not None:
        inst_over = R.refprof(triples, targets={R.EX + c for c in cfg["targets"]})[0]
    problems = concrete_problems(args["prop"], args["scenario"], triples, reals, args["flags"], st["tags"], set(args.get("active", [])), cfg, inst_over)
    if problems:
        print("\n".join(problems[:5]))
        print("thresholds=%r flags=%r\ndocument:\n%s" % (thrs, args["flags"], R.to_ntriples(triples)))
        for x in reals:
            print("---- run %s\n%s" % (x["run"]["name"], x["text"]))
        return True
    return False
