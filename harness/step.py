"""H-STEP: one transition of the instance-tracking pass or of the feature-counting pass from an arbitrary valid pre-state
(C01a, C09a, C10a, C14a, C16b, C17 examples).

The pre-state is built directly (initialisation skipped): dictionaries with *symbolic counters* (z3 Ints) and node IRIs whose
characters are symbolic where only equality matters (dictionary look-ups fork through the registry-based hashing of SymStr).
One real method is executed; the post-state must be the pre-state with exactly the documented cells changed.  By induction on
the document this gives "counter = number of matching triples / instances seen so far" for documents of any length.
"""
import copy

import z3

from symx import HarnessError, SymInt, SymStr, fork
from symx.symstr import as_z3, _or, _and
from .strfn import Ob, free, sstr, neg, eq, c_iri, c_local

RDF_TYPE = "http://www.w3.org/1999/02/22-rdf-syntax-ns#type"
XSD_STRING = "http://www.w3.org/2001/XMLSchema#string"
P, Q = "http://ex.org/p", "http://ex.org/q"


def sym_counter(ex, name, lo=0, hi=50):
    return SymInt(ex.fresh_int(name, lo, hi), lo, hi)


def node(ex, name, k=1):
    """An IRI with k symbolic characters."""
    return sstr("http://ex.org/n/", free(ex, name, k, c_local))


def conc(x, m):
    if isinstance(x, SymStr):
        return x.model_str(m)
    if isinstance(x, SymInt):
        return x.value(m)
    if isinstance(x, dict):
        return {conc(k, m): conc(v, m) for k, v in x.items()}
    if isinstance(x, list):
        return [conc(i, m) for i in x]
    if isinstance(x, tuple):
        return tuple(conc(i, m) for i in x)
    return x


def model_term(t):
    """('iri', s) | ('bnode', s) | ('lit', dt) -> sheXer model object."""
    from shexer.model.IRI import IRI
    from shexer.model.bnode import BNode
    from shexer.model.Literal import Literal
    if t[0] == "iri":
        return IRI(t[1])
    if t[0] == "bnode":
        return BNode(t[1])
    return Literal(t[2] if len(t) > 2 else "v", t[1])


def model_triple(s, p, o):
    from shexer.model.property import Property
    return (model_term(s), Property(p), model_term(o))


def int_eq(a, b):
    """z3 Bool / bool: two counters (SymInt or int) are equal."""
    ae = a.e if isinstance(a, SymInt) else z3.IntVal(a)
    be = b.e if isinstance(b, SymInt) else z3.IntVal(b)
    return z3.simplify(ae == be)


def flat(d, prefix=()):
    """Flatten nested dicts / tuples of dicts into {path: leaf}."""
    out = {}
    if isinstance(d, dict):
        for k, v in d.items():
            kk = k.model_key if hasattr(k, "model_key") else k
            out.update(flat(v, prefix + (kk,)))
    elif isinstance(d, (tuple, list)) and any(isinstance(x, (dict, list, tuple)) for x in d):
        for i, v in enumerate(d):
            out.update(flat(v, prefix + (i,)))
    else:
        out[prefix] = d
    return out


def same_except(pre, post, expected_changes):
    """z3 Bool / bool: post == pre except for `expected_changes` {path: new value or ('+', n)}; paths compare by symbolic string equality."""
    fpre, fpost = flat(pre), flat(post)
    conds = []
    used = set()
    for path, v in fpost.items():
        # find the matching pre path (keys may be SymStr: equal objects are the same python objects here, since states are copied shallowly)
        match = None
        for p2 in fpre:
            if _path_same(path, p2):
                match = p2
                break
        exp = None
        for ep, ev in expected_changes.items():
            if _path_same(path, ep):
                exp = ev
                used.add(id(ev))
                break
        if exp is not None:
            base = fpre[match] if match is not None else 0
            if isinstance(exp, tuple) and exp[0] == "+":
                want = base + exp[1]
            else:
                want = exp
            conds.append(_leaf_eq(v, want))
        elif match is None:
            conds.append(False)      # a new cell that was not expected
        else:
            conds.append(_leaf_eq(v, fpre[match]))
    for p2 in fpre:
        if not any(_path_same(p2, path) for path in fpost):
            conds.append(False)      # a cell disappeared
    for ep, ev in expected_changes.items():
        if not any(_path_same(path, ep) for path in fpost):
            conds.append(False)      # an expected cell was not created
    return _and(conds)


def states_equal(a, b):
    """z3 Bool / bool: two nested states are equal (same cells, equal leaves)."""
    fa, fb = flat(a), flat(b)
    conds = []
    for path, v in fa.items():
        match = [p2 for p2 in fb if _path_same(path, p2)]
        if not match:
            return False
        conds.append(_leaf_eq(v, fb[match[0]]))
    for p2 in fb:
        if not any(_path_same(p2, path) for path in fa):
            return False
    return _and(conds)


def _path_same(a, b):
    if len(a) != len(b):
        return False
    for x, y in zip(a, b):
        if x is y:
            continue
        if isinstance(x, SymInt) or isinstance(y, SymInt):
            if isinstance(x, (SymInt, int)) and isinstance(y, (SymInt, int)) and not isinstance(x, bool) and not isinstance(y, bool):
                r = int_eq(x, y)
                if z3.is_true(r):
                    continue
            return False
        if isinstance(x, str) and isinstance(y, str):
            if isinstance(x, SymStr) or isinstance(y, SymStr):
                sx, sy = SymStr.lift(x), SymStr.lift(y)
                if sx.concrete() and sy.concrete():
                    if sx.plain() != sy.plain():
                        return False
                    continue
                # keys with symbolic characters: every key went through the registry-based hash, so its equality with the other
                # keys of the state is already decided by the path condition - ask the solver which way
                e = sx.eq_expr(sy)
                if e is False:
                    return False
                if e is True:
                    continue
                from symx import cur
                if cur().sat(z3.Not(e)):
                    return False
                continue
            if x != y:
                return False
            continue
        if x != y:
            return False
    return True


def _leaf_eq(a, b):
    if isinstance(a, (SymInt, int)) and isinstance(b, (SymInt, int)) and not isinstance(a, bool) and not isinstance(b, bool):
        r = int_eq(a, b)
        return True if z3.is_true(r) else (False if z3.is_false(r) else r)
    if isinstance(a, str) and isinstance(b, str):
        return eq(a, b)
    if isinstance(a, list) and isinstance(b, list):
        if len(a) != len(b):
            return False
        return _and([_leaf_eq(x, y) for x, y in zip(a, b)])
    return a == b


def copy_state(x):
    """Copy containers, keep leaves (SymStr / SymInt are immutable)."""
    if isinstance(x, dict):
        return {k: copy_state(v) for k, v in x.items()}
    if isinstance(x, list):
        return [copy_state(v) for v in x]
    if isinstance(x, tuple):
        return tuple(copy_state(v) for v in x)
    return x


# ------------------------------------------------------------------------- feature-pass steps

def make_profiler(i_dict, inverse, examples_mode=None, detect_minimal_iri=False):
    from shexer.core.profiling.class_profiler import ClassProfiler
    return ClassProfiler(triples_yielder=None, instances_dict=i_dict, inverse_paths=inverse, examples_mode=examples_mode,
                         detect_minimal_iri=detect_minimal_iri)


class AnnotateSubject(Ob):
    """_annotate_target_subject: exactly the cells (prop, kind) and (prop, shape S) for every class S of the value grow by one."""
    functions = ["AbstractFeatureDirectionStrategy._annotate_target_subject", "_decide_type_elem", "_decide_shapes_elem", "_get_shape_name_for_a_class",
                 "_introduce_needed_elements_in_shape_instances_dict_for_subj", "DirectFeaturesStrategy / IncludeReverseFeaturesStrategy.annotate_triple_features"]

    def __init__(self, okind, pre, inverse, prop=P):
        self.okind, self.pre, self.inverse, self.prop = okind, pre, inverse, prop
        self.name = "annotate_subject/%s/pre=%s/%s%s" % (okind, pre, "inverse" if inverse else "direct", "/insttype" if prop == RDF_TYPE else "")

    def build(self, ex):
        s, other = node(ex, "s"), node(ex, "o")
        classes_other = ["http://ex.org/D", "http://ex.org/E"]
        feats = {}
        if self.pre in ("same-prop", "full"):
            feats[self.prop] = {"IRI": sym_counter(ex, "c_iri", 1)}
        if self.pre == "full":
            feats[self.prop][XSD_STRING] = sym_counter(ex, "c_str", 1)
            feats[self.prop]["%<http://weso.es/shapes/D>"] = sym_counter(ex, "c_d", 1)
            feats[Q] = {"BNode": sym_counter(ex, "c_q", 1)}
        i_dict = {s: (["http://ex.org/C"], feats) + (({},) if self.inverse else ()),
                  other: (classes_other, {}) + (({},) if self.inverse else ())}
        if self.okind == "lit":
            o = ("lit", XSD_STRING)
        elif self.okind == "bnode":
            o = ("bnode", sstr("_:b", free(ex, "b", 1, c_local)))
        elif self.okind == "iri-any":
            o = ("iri", node(ex, "x"))          # may or may not be the tracked instance `other`: the solver decides
        elif self.okind == "iri-instance":
            o = ("iri", other)
        elif self.okind == "class":
            o = ("iri", "http://ex.org/C")
        else:
            raise HarnessError(self.okind)
        return dict(i_dict=i_dict, triple=(("iri", s), self.prop, o), s=s, other=other)

    def call(self, a):
        i_dict = copy_state(a["i_dict"])
        prof = make_profiler(i_dict, self.inverse)
        prof._strategy.annotate_triple_features(model_triple(*a["triple"]))
        return dict(i_dict=i_dict)

    def bad(self, a, result):
        return neg(states_equal(result["i_dict"], ref_annotate(a["i_dict"], a["triple"], self.inverse)))

    def check(self, a, result):
        from . import rows as R
        return None   # the concrete differential of the runner compares post-states; the symbolic oracle is the judge


def ref_annotate(i_dict, triple, inverse):
    """Reference transition on plain python values (used by `check` of every feature-pass obligation)."""
    (sk, s), prop, o = triple
    post = copy_state(i_dict)

    def bump(node, pos, kind):
        d = post[node][pos].setdefault(prop, {})
        d[kind] = d.get(kind, 0) + 1

    def shapes(n):
        return ["%<http://weso.es/shapes/" + c.rsplit("/", 1)[1] + ">" for c in post[n][0]]
    if s in post:
        kind = o[1] if (prop == RDF_TYPE and o[0] != "lit") else {"iri": "IRI", "bnode": "BNode"}.get(o[0], o[1])
        bump(s, 1, kind)
        if prop != RDF_TYPE and o[0] in ("iri", "bnode") and o[1] in post:
            for sh in shapes(o[1]):
                bump(s, 1, sh)
    if inverse and o[0] in ("iri", "bnode") and o[1] in post:
        kind = s if prop == RDF_TYPE else {"iri": "IRI", "bnode": "BNode"}[sk]
        bump(o[1], 2, kind)
        if prop != RDF_TYPE and sk == "iri" and s in post:
            for sh in shapes(s):
                bump(o[1], 2, sh)
    return post


def _check_annotate(self, a, result):
    want = ref_annotate(a["i_dict"], a["triple"], self.inverse)
    got = result["i_dict"]
    return None if _norm(got) == _norm(want) else "after %r the instance features are %r, expected %r" % (a["triple"], got, want)


def _norm(x):
    if isinstance(x, dict):
        return {k: _norm(v) for k, v in x.items()}
    if isinstance(x, (list, tuple)):
        return [_norm(v) for v in x]
    return x


AnnotateSubject.check = _check_annotate


class AnnotateObject(AnnotateSubject):
    """IncludeReverseFeaturesStrategy._annotate_target_object: the mirror image of _annotate_target_subject."""
    functions = ["IncludeReverseFeaturesStrategy._annotate_target_object", "_introduce_needed_elements_in_shape_instances_dict_for_obj",
                 "IncludeReverseFeaturesStrategy.annotate_triple_features / is_a_relevant_triple"]

    def __init__(self, skind, pre):
        self.skind, self.pre, self.inverse, self.prop = skind, pre, True, P
        self.name = "annotate_object/%s/pre=%s" % (skind, pre)

    def build(self, ex):
        t, other = node(ex, "t"), node(ex, "o")
        feats = {}
        if self.pre == "full":
            feats[P] = {"IRI": sym_counter(ex, "c_iri", 1), "%<http://weso.es/shapes/D>": sym_counter(ex, "c_d", 1)}
            feats[Q] = {"BNode": sym_counter(ex, "c_q", 1)}
        i_dict = {t: (["http://ex.org/C"], {}, feats), other: (["http://ex.org/D"], {}, {})}
        if self.skind == "bnode":
            s = ("bnode", sstr("_:b", free(ex, "b", 1, c_local)))
        elif self.skind == "iri-any":
            s = ("iri", node(ex, "x"))
        else:
            s = ("iri", other)
        return dict(i_dict=i_dict, triple=(s, P, ("iri", t)), t=t, other=other)


class ClassAggregation(Ob):
    """annotate_instance_features: for every class of the instance exactly the cells [cardinality] and ['+'] of each of its
    (property, kind) features grow by one - in both directions when inverse paths are tracked."""
    functions = ["AbstractFeatureDirectionStrategy._annotate_direct_instance_features(_for_class)", "_infer_direct_3tuple_features", "_infer_valid_cardinalities",
                 "_introduce_needed_elements_in_shape_classes_dict", "IncludeReverseFeaturesStrategy._annotate_2d_direct/_inverse_instance_features(_for_class)",
                 "_infer_inverse_3tuple_features", "ClassProfiler._build_class_profile"]

    def __init__(self, direct, inv, inverse, classes=("http://ex.org/C",), pre="some"):
        self.direct, self.inv, self.inverse, self.classes, self.pre = direct, inv, inverse, classes, pre
        self.name = "class_aggregation/direct=%r/inverse=%r/%s/classes=%d/pre=%s" % (direct, inv, "2d" if inverse else "1d", len(classes), pre)

    def build(self, ex):
        inst = node(ex, "i")
        i_entry = (list(self.classes), copy.deepcopy(self.direct)) + ((copy.deepcopy(self.inv),) if self.inverse else ())
        c_shapes = {}
        n = [0]

        def cnt():
            n[0] += 1
            return sym_counter(ex, "k%d" % n[0], 0)
        for c in self.classes:
            d = {}
            if self.pre == "some":
                d = {P: {"IRI": {1: cnt(), "+": cnt()}}}
            elif self.pre == "full":
                d = {P: {"IRI": {1: cnt(), 2: cnt(), "+": cnt()}, XSD_STRING: {1: cnt(), "+": cnt()}}, RDF_TYPE: {c: {1: cnt()}}}
            c_shapes[c] = (d, {Q: {"IRI": {1: cnt(), "+": cnt()}}} if self.pre != "empty" else {}) if self.inverse else d
        return dict(i_dict={inst: i_entry}, c_shapes=c_shapes, inst=inst)

    def call(self, a):
        i_dict = copy_state(a["i_dict"])
        prof = make_profiler(i_dict, self.inverse)
        prof._classes_shape_dict.update(copy_state(a["c_shapes"]))
        prof._build_class_profile()
        return dict(c_shapes=prof._classes_shape_dict)

    def _expected(self, a):
        inst = a["inst"]
        entry = a["i_dict"][inst]
        ch = {}
        for c in entry[0]:
            for pos, feats in ((0, entry[1]),) + (((1, entry[2]),) if self.inverse else ()):
                for prop, kinds in feats.items():
                    for kind, n in kinds.items():
                        for card in ((1,) if prop == RDF_TYPE else (n, "+")):
                            path = (c, pos, prop, kind, card) if self.inverse else (c, prop, kind, card)
                            prev = ch.get(path, ("+", 0))
                            ch[path] = ("+", prev[1] + 1)
        return ch

    def _want(self, a):
        want = copy_state(a["c_shapes"])
        for path, (_, n) in self._expected(a).items():
            d = want
            for k in path[:-1]:
                d = d[k] if isinstance(d, tuple) else d.setdefault(k, {})
            d[path[-1]] = d.get(path[-1], 0) + n
        return want

    def bad(self, a, result):
        return neg(states_equal(result["c_shapes"], self._want(a)))

    def check(self, a, result):
        want = copy_state(a["c_shapes"])
        for path, (_, n) in self._expected(a).items():
            d = want
            for k in path[:-1]:
                d = d[k] if isinstance(d, tuple) else d.setdefault(k, {})
            d[path[-1]] = d.get(path[-1], 0) + n
        return None if _norm(result["c_shapes"]) == _norm(want) else "class profile after aggregation is %r, expected %r" % (result["c_shapes"], want)


# ------------------------------------------------------------------------- instance-pass steps (C10a, C16b)

class _StubYielder:
    def yield_triples(self):
        return iter(())


def make_tracker(targets, all_classes, inst_prop, cap):
    from shexer.core.instances.instance_tracker import InstanceTracker
    from shexer.model.IRI import IRI
    return InstanceTracker(target_classes=[IRI(t) for t in targets] if targets is not None else None, triples_yielder=_StubYielder(),
                           instantiation_property=inst_prop, all_classes_mode=all_classes, track_hierarchies=False, instances_cap=cap)


class Relevance(Ob):
    """is_relevant_triple / annotate_triple of the instance tracker: accepted iff predicate = instantiation property and (all classes or
    object in targets); the instance map gains exactly (subject -> + class)."""
    functions = ["BaseAnnotator.is_relevant_triple/annotate_triple/add_instance_to_instances_dict/_get_proper_strategy", "TargetClassesMode.is_relevant_triple/annotate_triple",
                 "AllClasesMode.is_relevant_triple/annotate_triple", "CompoundStrategyMode", "BaseStrategyMode.annotate_class", "InstanceTracker.is_an_instantiation_prop",
                 "model.IRI/Property.__eq__"]

    def __init__(self, mode, inst_prop, okind="iri", known_subject=False):
        self.mode, self.inst_prop, self.okind, self.known = mode, inst_prop, okind, known_subject
        self.name = "relevance/%s/inst=%s/obj=%s/%s" % (mode, inst_prop.rsplit("/", 1)[-1], okind, "known-subj" if known_subject else "new-subj")

    def build(self, ex):
        pred = sstr(self.inst_prop[:-2], free(ex, "p", 2, c_iri))      # last two characters symbolic: may or may not be the instantiation property
        if self.okind == "iri":
            obj = ("iri", sstr("http://ex.org/", free(ex, "c", 1, c_local)))
        elif self.okind == "bnode":
            obj = ("bnode", "_:c")
        else:
            obj = ("lit", XSD_STRING)
        s = node(ex, "s")
        targets = ["http://ex.org/C", "http://ex.org/D"] if self.mode in ("targets", "compound") else None
        pre = {s: ["http://ex.org/Z"]} if self.known else {}
        return dict(triple=(("iri", s), pred, obj), targets=targets, pre=pre, s=s)

    def call(self, a):
        tr = make_tracker(a["targets"], self.mode in ("all", "compound"), self.inst_prop, -1)
        tr._instances_dict.update(copy_state(a["pre"]))
        t = model_triple(*a["triple"])
        rel = tr._annotator.is_relevant_triple(t)
        if rel:
            tr._annotator.annotate_triple(t)
        return dict(relevant=bool(rel), instances=tr._instances_dict)

    def _oracle(self, a):
        (_, s), pred, obj = a["triple"]
        is_inst = eq(pred, self.inst_prop)
        if obj[0] == "lit":
            in_targets = False
        else:
            in_targets = _or([eq(obj[1], t) for t in (a["targets"] or [])]) if obj[0] == "iri" else False
        if self.mode == "all" or self.mode == "compound":
            return is_inst
        return _and([is_inst, in_targets])

    def bad(self, a, result):
        want = self._oracle(a)
        (_, s), pred, obj = a["triple"]
        if result["relevant"]:
            exp = {(s,): list(a["pre"].get(s, [])) + [obj[1]]} if obj[0] != "lit" else None
            if exp is None:
                return True
            ok_state = same_except(a["pre"], result["instances"], exp)
            return neg(_and([want, ok_state]))
        return _or([want, neg(same_except(a["pre"], result["instances"], {}))])

    def check(self, a, result):
        (_, s), pred, obj = a["triple"]
        want = pred == self.inst_prop and (self.mode in ("all", "compound") or (obj[0] == "iri" and obj[1] in (a["targets"] or [])))
        if obj[0] == "lit" and want:
            return None   # literal object of the instantiation property: outside the domain (AttributeError in the real code)
        if bool(result["relevant"]) != want:
            return "triple %r relevant=%r, expected %r" % (a["triple"], result["relevant"], want)
        exp = dict(a["pre"])
        if want:
            exp[s] = list(exp.get(s, [])) + [obj[1]]
        return None if _norm(result["instances"]) == _norm(exp) else "instances after %r: %r, expected %r" % (a["triple"], result["instances"], exp)


class CapStep(Ob):
    """InstanceCapMode from an arbitrary state: an instantiation triple for class C is accepted iff count(C) < cap; counters and the
    completion count are updated exactly; the early stop is raised iff every target class is complete; other predicates are never rejected by the cap."""
    functions = ["InstanceCapMode.is_relevant_triple/_check_class_counts/annotate_triple/_annotate_class_with_stop_condition/_annotate_class_with_no_stop_condition",
                 "InstancesCapException", "BaseAnnotator._get_proper_strategy"]

    def __init__(self, mode, subject, other_pred=False, inst=None):
        # inst: a non-default instantiation property; with it rdf:type is an ordinary property (other_pred then uses rdf:type as the predicate)
        self.mode, self.subject, self.other_pred, self.inst = mode, subject, other_pred, inst
        self.name = "cap/%s/subject=%s%s%s" % (mode, subject, "/other-pred" if other_pred else "", "/inst=" + inst.rsplit("/", 1)[-1] if inst else "")

    def build(self, ex):
        cap = sym_counter(ex, "cap", 1, 6)
        cC = sym_counter(ex, "cC", 0, 6)
        cD = sym_counter(ex, "cD", 0, 6)
        ex.add(cC.e <= cap.e, cD.e <= cap.e)
        s = node(ex, "s")
        pre_inst = {}
        if self.subject == "known-other-class":
            pre_inst[s] = ["http://ex.org/D"]
            ex.add(cD.e >= 1)
        elif self.subject == "class-is-tracked":       # the class IRI itself is a tracked instance of a metaclass (ontology + data in one file, punning)
            pre_inst["http://ex.org/C"] = ["http://ex.org/D"]
            ex.add(cD.e >= 1)
        elif self.subject == "known-same-class":
            pass
        inst = self.inst or RDF_TYPE
        pred = inst if not self.other_pred else (RDF_TYPE if self.inst else P)
        return dict(cap=cap, counts={"http://ex.org/C": cC, "http://ex.org/D": cD}, pre_inst=pre_inst, s=s,
                    triple=(("iri", s), pred, ("iri", "http://ex.org/C")))

    def call(self, a):
        from shexer.core.instances.annotators.strategy_mode.instances_cap_exception import InstancesCapException
        cap, counts = a["cap"], a["counts"]
        targets = ["http://ex.org/C", "http://ex.org/D"] if self.mode == "targets" else None
        tr = make_tracker(targets, self.mode == "all", self.inst or RDF_TYPE, 1)          # cap > 0 selects InstanceCapMode; the real limit is injected below
        mode = tr._annotator._strategy_mode
        mode._instance_limit = cap
        mode._class_counts.update(counts)
        completed = 0
        # number of classes already complete is determined by the state (representation invariant)
        nC = fork(counts["http://ex.org/C"].e == cap.e) if isinstance(cap, SymInt) else counts["http://ex.org/C"] == cap
        nD = fork(counts["http://ex.org/D"].e == cap.e) if isinstance(cap, SymInt) else counts["http://ex.org/D"] == cap
        mode._n_classes_completed = int(nC) + int(nD)
        tr._instances_dict.update(copy_state(a["pre_inst"]))
        t = model_triple(*a["triple"])
        stopped = False
        rel = mode.is_relevant_triple(t)
        if rel:
            try:
                mode.annotate_triple(t)
            except InstancesCapException:
                stopped = True
        return dict(relevant=bool(rel), stopped=stopped, counts=dict(mode._class_counts), completed=mode._n_classes_completed,
                    instances=tr._instances_dict, pre_completed=int(nC) + int(nD))

    def bad(self, a, result):
        cap, cC, cD = a["cap"], a["counts"]["http://ex.org/C"], a["counts"]["http://ex.org/D"]
        s = a["s"]
        if self.other_pred:
            # not an instantiation triple: the cap never rejects it; the wrapped strategy says "not relevant"; nothing changes
            ok = _and([not result["relevant"], same_except(a["counts"], result["counts"], {}), same_except(a["pre_inst"], result["instances"], {})])
            return neg(ok)
        below = z3.simplify(cC.e < cap.e)
        if result["relevant"]:
            exp_counts = {("http://ex.org/C",): ("+", 1)}
            exp_inst = {(s,): list(a["pre_inst"].get(s, [])) + ["http://ex.org/C"]}
            now_full = z3.simplify(cC.e + 1 == cap.e)
            completed_ok = z3.If(now_full, result["pre_completed"] + 1, result["pre_completed"]) == result["completed"] if self.mode == "targets" else True
            all_full = z3.And(now_full, cD.e == cap.e)
            stop_ok = (all_full if result["stopped"] else z3.Not(all_full)) if self.mode == "targets" else (not result["stopped"])
            ok = _and([below, same_except(a["counts"], result["counts"], exp_counts), same_except(a["pre_inst"], result["instances"], exp_inst),
                       completed_ok, stop_ok])
            return neg(ok)
        ok = _and([z3.Not(below), same_except(a["counts"], result["counts"], {}), same_except(a["pre_inst"], result["instances"], {}), not result["stopped"]])
        return neg(ok)

    def check(self, a, result):
        cap, cC, cD = a["cap"], a["counts"]["http://ex.org/C"], a["counts"]["http://ex.org/D"]
        if self.other_pred:
            return None if (not result["relevant"] and result["counts"] == a["counts"]) else "a non-instantiation triple was handled by the cap: %r" % (result,)
        want = cC < cap
        if bool(result["relevant"]) != want:
            return "cap=%r count(C)=%r: instantiation triple accepted=%r" % (cap, cC, result["relevant"])
        if want:
            exp = dict(a["counts"])
            exp["http://ex.org/C"] = cC + 1
            if result["counts"] != exp:
                return "counters after the step %r, expected %r" % (result["counts"], exp)
            if self.mode == "targets" and result["stopped"] != (cC + 1 == cap and cD == cap):
                return "early stop=%r with counts %r cap %r" % (result["stopped"], exp, cap)
        return None


# ------------------------------------------------------------------------- examples (C17)

class ExampleStep(Ob):
    """first-seen example bookkeeping: the stored example of (shape, property, direction) is an actual value of that property on an instance of the
    shape, it is set once and never replaced; features are annotated exactly as without examples."""
    functions = ["DirectFeaturesStrategy._annotate_triple_features_with_examples/_annotate_example_no_inverse", "IncludeReverseFeaturesStrategy._annotate_example_subject_inverse_paths/"
                 "_annotate_example_object_inverse_paths", "ShapeExampleFeaturesDict.has/set/get_constraint_example", "ClassProfiler._annotate_shape_examples"]

    def __init__(self, inverse, already):
        self.inverse, self.already = inverse, already
        self.name = "examples/%s/%s" % ("inverse" if inverse else "direct", "already-set" if already else "first")

    def build(self, ex):
        s, o = node(ex, "s"), node(ex, "o")
        ex.add(as_z3(neg(eq(s, o))))          # two distinct instances
        i_dict = {s: (["http://ex.org/C"], {}) + (({},) if self.inverse else ()), o: (["http://ex.org/D"], {}) + (({},) if self.inverse else ())}
        prev = node(ex, "v") if self.already else None
        return dict(i_dict=i_dict, triple=(("iri", s), P, ("iri", o)), prev=prev, s=s, o=o)

    def call(self, a):
        i_dict = copy_state(a["i_dict"])
        prof = make_profiler(i_dict, self.inverse, examples_mode="all")
        sf = prof._shape_feature_examples
        if a["prev"] is not None:
            if self.inverse:
                sf.set_constraint_example(shape_id="http://ex.org/C", prop_id=P, example=a["prev"], inverse=False)
                sf.set_constraint_example(shape_id="http://ex.org/D", prop_id=P, example=a["prev"], inverse=True)
            else:
                sf.set_constraint_example(shape_id="http://ex.org/C", prop_id=P, example=a["prev"])
        prof._strategy.annotate_triple_features(model_triple(*a["triple"]))
        if self.inverse:
            return dict(i_dict=i_dict, ex_C=sf.get_constraint_example(shape_id="http://ex.org/C", prop=P, inverse=False),
                        ex_D=sf.get_constraint_example(shape_id="http://ex.org/D", prop=P, inverse=True))
        return dict(i_dict=i_dict, ex_C=sf.get_constraint_example(shape_id="http://ex.org/C", prop=P), ex_D=None)

    def bad(self, a, result):
        s, o = a["s"], a["o"]
        want_C = a["prev"] if a["prev"] is not None else o
        conds = [eq(result["ex_C"], want_C)]
        if self.inverse:
            conds.append(eq(result["ex_D"], a["prev"] if a["prev"] is not None else s))
        return neg(_and(conds))

    def check(self, a, result):
        want_C = a["prev"] if a["prev"] is not None else a["o"]
        if result["ex_C"] != want_C:
            return "example of (C, p) is %r, expected %r" % (result["ex_C"], want_C)
        if self.inverse and result["ex_D"] != (a["prev"] if a["prev"] is not None else a["s"]):
            return "example of (D, ^p) is %r" % (result["ex_D"],)
        want = ref_annotate(a["i_dict"], a["triple"], self.inverse)
        return None if _norm(result["i_dict"]) == _norm(want) else "features differ with examples_mode: %r vs %r" % (result["i_dict"], want)


class ExampleTwoShapes(Ob):
    """two shapes using the same property in the same direction keep separate examples."""
    functions = ExampleStep.functions

    def __init__(self, inverse):
        self.inverse = inverse
        self.name = "examples_two_shapes/%s" % ("inverse" if inverse else "direct")

    def build(self, ex):
        s1, s2, o1, o2 = node(ex, "s"), node(ex, "t"), node(ex, "o"), node(ex, "u")
        ex.add(as_z3(neg(eq(s1, s2))), as_z3(neg(eq(o1, o2))), as_z3(neg(eq(s1, o1))), as_z3(neg(eq(s1, o2))), as_z3(neg(eq(s2, o1))), as_z3(neg(eq(s2, o2))))
        tail = ({},) if self.inverse else ()
        i_dict = {s1: (["http://ex.org/C"], {}) + tail, s2: (["http://ex.org/D"], {}) + tail}
        return dict(i_dict=i_dict, t1=(("iri", s1), P, ("iri", o1)), t2=(("iri", s2), P, ("iri", o2)), o1=o1, o2=o2)

    def call(self, a):
        i_dict = copy_state(a["i_dict"])
        prof = make_profiler(i_dict, self.inverse, examples_mode="all")
        prof._strategy.annotate_triple_features(model_triple(*a["t1"]))
        prof._strategy.annotate_triple_features(model_triple(*a["t2"]))
        sf = prof._shape_feature_examples
        kw = dict(inverse=False) if self.inverse else {}
        return dict(ex_C=sf.get_constraint_example(shape_id="http://ex.org/C", prop=P, **kw), ex_D=sf.get_constraint_example(shape_id="http://ex.org/D", prop=P, **kw))

    def bad(self, a, result):
        return neg(_and([eq(result["ex_C"], a["o1"]), eq(result["ex_D"], a["o2"])]))

    def check(self, a, result):
        return None if (result["ex_C"], result["ex_D"]) == (a["o1"], a["o2"]) else "examples of (C,p)/(D,p) are %r/%r, expected %r/%r" % (result["ex_C"], result["ex_D"], a["o1"], a["o2"])


class ShapeMapTrackerStep(Ob):
    """ShapeMapInstanceTracker._solve_targets_of_an_item from an arbitrary state: every node of the item gains the item's label (once),
    whether or not an earlier item already selected it; nothing else changes."""
    functions = ["ShapeMapInstanceTracker._solve_targets_of_an_item/track_instances"]

    def __init__(self, n_nodes, repeat):
        self.n, self.repeat = n_nodes, repeat
        self.name = "shape_map_tracker_step/nodes=%d%s" % (n_nodes, "/repeated" if repeat else "")

    def build(self, ex):
        known = node(ex, "k")
        nodes = [node(ex, "n%d" % i) for i in range(self.n)]
        if self.repeat:
            nodes.append(nodes[0])
        return dict(pre={known: ["<http://sh.org/L1>"]}, nodes=nodes, label="<http://sh.org/L2>")

    def call(self, a):
        from shexer.core.instances.mappings.shape_map_instance_tracker import ShapeMapInstanceTracker

        class Sel:
            def __init__(self, nodes):
                self.nodes = nodes

            def get_target_nodes(self):
                return list(self.nodes)

        class Item:
            def __init__(self, nodes, label):
                self.node_selector, self.shape_label = Sel(nodes), label

        class SM:
            def __init__(self, items):
                self.items = items

            def yield_items(self):
                return iter(self.items)
        tr = ShapeMapInstanceTracker(shape_map=SM([Item(a["nodes"], a["label"])]))
        tr._instances_dict.update(copy_state(a["pre"]))
        return dict(instances=tr.track_instances())

    @staticmethod
    def _ref(pre, nodes, label):
        post = copy_state(pre)
        for n in nodes:
            if n not in post:
                post[n] = []
            if label not in post[n]:
                post[n].append(label)
        return post

    def bad(self, a, result):
        return neg(states_equal(result["instances"], self._ref(a["pre"], a["nodes"], a["label"])))

    def check(self, a, result):
        want = self._ref(a["pre"], a["nodes"], a["label"])
        return None if _norm(result["instances"]) == _norm(want) else "instances after the item: %r, expected %r" % (result["instances"], want)


class ShapeMapTwoItems(Ob):
    """The real ShapeMap / ShapeMapItem model with two items whose labels carry a symbolic character (they may or may not coincide) through the real tracker:
    every node of an item gets that item's label; items sharing a label select the union of their nodes."""
    functions = ["shexer.model.shape_map.ShapeMap.add_item/yield_items", "ShapeMapItem", "ShapeMapInstanceTracker.track_instances/_solve_targets_of_an_item"]

    def __init__(self, via_ctor):
        self.via_ctor = via_ctor
        self.name = "shape_map_two_items/%s" % ("constructor" if via_ctor else "add_item")

    def build(self, ex):
        l1 = sstr("<http://sh.org/L", free(ex, "l1", 1, c_local), ">")
        l2 = sstr("<http://sh.org/L", free(ex, "l2", 1, c_local), ">")
        return dict(items=[([node(ex, "a"), node(ex, "b")], l1), ([node(ex, "c")], l2)])

    def call(self, a):
        from shexer.core.instances.mappings.shape_map_instance_tracker import ShapeMapInstanceTracker
        from shexer.model.shape_map import ShapeMap, ShapeMapItem

        class Sel:
            sgraph = None

            def __init__(self, nodes):
                self.nodes = nodes

            def get_target_nodes(self):
                return list(self.nodes)
        items = [ShapeMapItem(node_selector=Sel(nodes), shape_label=label) for nodes, label in a["items"]]
        if self.via_ctor:
            sm = ShapeMap(shape_map_items=items)
        else:
            sm = ShapeMap()
            for it in items:
                sm.add_item(it)
        return dict(instances=ShapeMapInstanceTracker(shape_map=sm).track_instances())

    @staticmethod
    def _ref(items):
        post = {}
        for nodes, label in items:
            for n in nodes:
                if n not in post:
                    post[n] = []
                if label not in post[n]:
                    post[n].append(label)
        return post

    def bad(self, a, result):
        return neg(states_equal(result["instances"], self._ref(a["items"])))

    def check(self, a, result):
        want = self._ref(a["items"])
        return None if _norm(result["instances"]) == _norm(want) else "instances %r, expected %r" % (result["instances"], want)


class MixedTrackerMerge(Ob):
    """MixedInstanceTracker.track_instances over a class tracker and a shape-map tracker (all_classes_mode / target classes combined with a shape map):
    every node keeps its classes and gains the labels of the shape-map items selecting it - also when the same node is found by both trackers;
    a label that coincides with a class name is disambiguated with the tracker's prefix."""
    functions = ["MixedInstanceTracker.track_instances/_integrate_dicts/_find_all_classes_in_dict/_get_label_for_ambiguous_class"]

    def __init__(self, n_ref, n_new, clash):
        self.n_ref, self.n_new, self.clash = n_ref, n_new, clash
        self.name = "mixed_tracker_merge/ref=%d/new=%d%s" % (n_ref, n_new, "/label-clash" if clash else "")

    def build(self, ex):
        classes = ["http://ex.org/C", "http://ex.org/D"]
        ref = {}
        for i in range(self.n_ref):
            ref[node(ex, "r%d" % i)] = [classes[i % 2]] if i != 1 else list(classes)
        label = classes[0] if self.clash else "<http://sh.org/L>"
        new = {}
        for i in range(self.n_new):
            new[node(ex, "m%d" % i)] = [label] if i == 0 else [label, "<http://sh.org/M>"]
        return dict(ref=ref, new=new)

    def call(self, a):
        from shexer.core.instances.mix.mixed_instance_tracker import MixedInstanceTracker

        class Tr:
            disambiguator_prefix = "sm_"

            def __init__(self, d):
                self.d = d

            def track_instances(self, verbose=True):
                return copy_state(self.d)
        return dict(instances=MixedInstanceTracker([Tr(a["ref"]), Tr(a["new"])]).track_instances(verbose=False))

    @staticmethod
    def _ref(ref, new):
        post = copy_state(ref)
        original = {c for cs in ref.values() for c in cs}
        for n, labels in new.items():
            if n not in post:
                post[n] = []
            for l in labels:
                post[n].append("sm_" + l if l in original else l)
        return post

    def bad(self, a, result):
        return neg(states_equal(result["instances"], self._ref(a["ref"], a["new"])))

    def check(self, a, result):
        want = self._ref(a["ref"], a["new"])
        return None if _norm(result["instances"]) == _norm(want) else "merged instances %r, expected %r" % (result["instances"], want)


class ClassAggregationSymbolicCount(Ob):
    """class aggregation of one instance whose number of values c is a *symbolic* integer (1 .. 10^6): the class gains exactly the cells
    [c] and ['+'] whatever c is - the solver finds any magic constant the code might treat specially."""
    functions = ClassAggregation.functions

    def __init__(self, inverse, pre):
        self.inverse, self.pre = inverse, pre
        self.name = "class_aggregation_symbolic_count/%s/pre=%s" % ("2d" if inverse else "1d", pre)

    def build(self, ex):
        inst = node(ex, "i")
        c = SymInt(ex.fresh_int("count", 1, 10 ** 6), 1, 10 ** 6)
        one = SymInt(z3.IntVal(1), 1, 1)
        feats = {P: {"IRI": c}}
        i_entry = (["http://ex.org/C"], feats) + ((({Q: {"IRI": c}}),) if self.inverse else ())
        d = {} if self.pre == "empty" else {P: {"IRI": {one: sym_counter(ex, "k1", 1), "+": sym_counter(ex, "k2", 1)}}}
        inv = {} if self.pre == "empty" else {Q: {"IRI": {one: sym_counter(ex, "k3", 1), "+": sym_counter(ex, "k4", 1)}}}
        c_shapes = {"http://ex.org/C": (d, inv) if self.inverse else d}
        return dict(i_dict={inst: i_entry}, c_shapes=c_shapes, inst=inst, c=c)

    def call(self, a):
        i_dict = copy_state(a["i_dict"])
        prof = make_profiler(i_dict, self.inverse)
        prof._classes_shape_dict.update(copy_state(a["c_shapes"]))
        prof._build_class_profile()
        return dict(c_shapes=prof._classes_shape_dict)

    def _want(self, a):
        want = copy_state(a["c_shapes"])
        c = a["c"]
        for pos, prop in ((0, P),) + (((1, Q),) if self.inverse else ()):
            d = want["http://ex.org/C"][pos] if self.inverse else want["http://ex.org/C"]
            cell = d.setdefault(prop, {}).setdefault("IRI", {})
            for card in (c, "+"):
                cell[card] = cell.get(card, 0) + 1
        return want

    def bad(self, a, result):
        return neg(states_equal(result["c_shapes"], self._want(a)))

    def check(self, a, result):
        want = self._want(a)
        return None if _norm(result["c_shapes"]) == _norm(want) else "class profile after aggregating an instance with %r values: %r, expected %r" % (a["c"], result["c_shapes"], want)


class WholeProfile(Ob):
    """Both passes of the real pipeline core (InstanceTracker.track_instances, then ClassProfiler.profile_classes) on a document of n triples
    whose node and class IRIs are symbolic (drawn from a 2-letter alphabet, so the solver explores every aliasing pattern: reflexive links,
    a node typed twice, a class that is also an instance, two triples about the same or different nodes) and whose predicates are a symbolic
    choice between the instantiation property and an ordinary property.  The resulting class profile and class counts must equal those of
    the reference profiler on the same triples."""
    functions = ["InstanceTracker.track_instances/_yield_relevant_triples", "BaseAnnotator + AllClasesMode (all methods)", "ClassProfiler.profile_classes/_init_class_counts_and_shape_dict/"
                 "_adapt_instances_dict/_build_shape_of_instances/_yield_relevant_triples/_build_class_profile/_clean_class_profile",
                 "DirectFeaturesStrategy / IncludeReverseFeaturesStrategy (all methods)", "AbstractFeatureDirectionStrategy (all methods)"]

    def __init__(self, n, inverse, okinds):
        self.n, self.inverse, self.okinds = n, inverse, okinds
        self.name = "whole_profile/n=%d/%s/objects=%s" % (n, "inverse" if inverse else "direct", "".join(k[0] for k in okinds))

    def build(self, ex):
        def two(name, a, b):
            c = ex.fresh_int(name, 0, 0x10FFFF)
            ex.add(z3.Or(c == ord(a), c == ord(b)))
            return c
        triples = []
        for i, ok in enumerate(self.okinds):
            s = ("iri", sstr("http://ex.org/n/", [two("s%d" % i, "a", "b")]))
            pred = sstr("http://ex.org/", [two("p%d" % i, "t", "p")])        # .../t is the instantiation property, .../p an ordinary one
            if ok == "node":
                o = ("iri", sstr("http://ex.org/n/", [two("o%d" % i, "a", "b")]))
            elif ok == "class":
                o = ("iri", sstr("http://ex.org/C", [two("o%d" % i, "1", "2")]))
            elif ok == "bnode":
                o = ("bnode", sstr("_:", [two("o%d" % i, "a", "b")]))
            else:
                # a plain literal whose lexical form may coincide with the IRI of a node (it must stay a literal)
                o = ("lit", XSD_STRING, sstr("http://ex.org/n/", [two("o%d" % i, "a", "b")]))
                ex.add(as_z3(neg(eq(pred, "http://ex.org/t"))))       # a literal object of the instantiation property is outside the domain
            triples.append((s, pred, o))
        for i in range(len(triples)):
            for j in range(i + 1, len(triples)):
                a, b = triples[i], triples[j]
                if a[2][0] == b[2][0] and a[2][0] != "lit":
                    ex.add(z3.Not(z3.And(as_z3(eq(a[0][1], b[0][1])), as_z3(eq(a[1], b[1])), as_z3(eq(a[2][1], b[2][1])))))     # duplicate-free graph
        return dict(triples=triples)

    def call(self, a):
        from shexer.core.instances.instance_tracker import InstanceTracker
        from shexer.core.profiling.class_profiler import ClassProfiler
        model = [model_triple(*t) for t in a["triples"]]

        class Stub:
            def yield_triples(self):
                return iter(model)
        tr = InstanceTracker(target_classes=None, triples_yielder=Stub(), instantiation_property="http://ex.org/t", all_classes_mode=True, track_hierarchies=False)
        inst = tr.track_instances()
        prof = ClassProfiler(triples_yielder=Stub(), instances_dict=inst, instantiation_property_str="http://ex.org/t", inverse_paths=self.inverse)
        profile, counts, _ = prof.profile_classes(verbose=False)
        return dict(profile=profile, counts=counts)

    def _ref(self, a):
        from . import rows as R
        triples = list(a["triples"])
        instances, feats = R.refprof(triples, inverse=self.inverse, inst_prop="http://ex.org/t")
        return R.class_profile(instances, feats, lambda n: 1, inverse=self.inverse, inst_prop="http://ex.org/t")

    def bad(self, a, result):
        profile, counts = self._ref(a)
        return neg(_and([states_equal(result["profile"], profile), states_equal(result["counts"], counts)]))

    def check(self, a, result):
        profile, counts = self._ref(a)
        if _norm(result["counts"]) != _norm(dict(counts)):
            return "class counts %r, reference %r for %r" % (result["counts"], dict(counts), a["triples"])
        if _norm(result["profile"]) != _norm(profile):
            return "class profile %r, reference %r for %r" % (result["profile"], profile, a["triples"])
        return None


class CardinalityMapping(Ob):
    """The pure cardinality mappings on a symbolic integer cardinality (unbounded): ShExC '{k}' (nothing for 1 on a constraint line) and
    SHACL minCount = maxCount = k."""
    functions = ["ShaclSerializer._min_occurs_from_cardinality/_max_occurs_from_cardinality", "BaseStatementSerializer.cardinality_representation"]

    def __init__(self, out_of_comment):
        self.ooc = out_of_comment
        self.name = "cardinality_mapping/%s" % ("line" if out_of_comment else "comment")

    def build(self, ex):
        return dict(card=SymInt(ex.fresh_int("card", 1, None), 1, None))

    def call(self, a):
        from shexer.io.shacl.formater.shacl_serializer import ShaclSerializer
        from shexer.io.shex.formater.statement_serializers.base_statement_serializer import BaseStatementSerializer
        from shexer.model.statement import Statement
        from symx import cur
        ser = ShaclSerializer(target_file=None, shapes_list=[], namespaces_dict={})
        card = a["card"]
        st = Statement(st_property=P, st_type="IRI", cardinality=card, n_occurences=1, probability=1.0)
        rep = BaseStatementSerializer.cardinality_representation(st, out_of_comment=self.ooc)
        import re
        m = re.fullmatch("\\{⟦(\\d+)⟧\\}", rep)
        if m:
            rep = ["{", cur().tokens[int(m.group(1))][0], "}"]
        else:
            m = re.fullmatch("\\{(\\d+)\\}", rep)
            rep = ["{", int(m.group(1)), "}"] if m else [rep]
        return dict(mn=ser._min_occurs_from_cardinality(card), mx=ser._max_occurs_from_cardinality(card), rep=rep)

    def bad(self, a, result):
        card = a["card"]
        conds = [isinstance(result["mn"], (SymInt, int)) and isinstance(result["mx"], (SymInt, int))]
        if conds[0]:
            conds.append(int_eq(result["mn"], card))
            conds.append(int_eq(result["mx"], card))
        rep = result["rep"]
        if rep == [""]:
            conds.append(self.ooc)
            conds.append(int_eq(card, 1))
        elif len(rep) == 3:
            conds.append(int_eq(rep[1], card))
            if self.ooc:
                conds.append(z3.Not(as_z3(int_eq(card, 1))))
        else:
            return True
        return neg(_and(conds))

    def check(self, a, result):
        k = a["card"]
        want = [""] if (self.ooc and k == 1) else ["{", k, "}"]
        if (result["mn"], result["mx"]) != (k, k):
            return "SHACL counts for cardinality %d are %r..%r" % (k, result["mn"], result["mx"])
        return None if list(result["rep"]) == want else "ShExC cardinality of %d is %r, expected %r" % (k, result["rep"], want)


class FilterYielder(Ob):
    """FilterNamespacesTriplesYielder over a stub yielder: passes exactly the triples whose predicate is not a direct child of an ignored
    namespace, in order."""
    functions = ["FilterNamespacesTriplesYielder.yield_triples/_pass_filters", "shexer.utils.triple_yielders.check_if_property_belongs_to_namespace_list"]

    def __init__(self, bases, namespaces):
        self.bases, self.namespaces = bases, namespaces
        self.name = "filter_yielder/%s/%s" % ("|".join(bases), "|".join(namespaces))

    def build(self, ex):
        preds = [sstr(b, free(ex, "p%d" % i, 1, c_iri)) for i, b in enumerate(self.bases)]
        return dict(preds=preds, namespaces=list(self.namespaces))

    def call(self, a):
        from shexer.io.graph.yielder.filter.filter_namespaces_triple_yielder import FilterNamespacesTriplesYielder
        triples = [model_triple(("iri", "http://ex.org/s%d" % i), p, ("lit", XSD_STRING)) for i, p in enumerate(a["preds"])]

        class Stub:
            def yield_triples(self):
                return iter(triples)
        y = FilterNamespacesTriplesYielder(actual_triple_yielder=Stub(), namespaces_to_ignore=a["namespaces"])
        return [t[0].iri for t in y.yield_triples()]

    def bad(self, a, result):
        # decide, for every triple, whether it must be kept; compare with the subjects that came out (order preserved)
        keep = []
        for p in a["preds"]:
            p = SymStr.lift(p)
            ign = _or([_and([p.startswith_expr(ns), neg(p[len(ns):].contains_expr("/")), neg(p[len(ns):].contains_expr("#"))]) for ns in a["namespaces"] if len(ns) <= len(p)])
            keep.append(neg(ign))
        got = [r if isinstance(r, str) and not isinstance(r, SymStr) else SymStr.lift(r).plain() for r in result]
        conds = []
        for i, k in enumerate(keep):
            present = ("http://ex.org/s%d" % i) in got
            conds.append(k if present else neg(k))
        if got != sorted(got):
            return True
        return neg(_and(conds))

    def check(self, a, result):
        want = ["http://ex.org/s%d" % i for i, p in enumerate(a["preds"])
                if not any(p.startswith(ns) and "/" not in p[len(ns):] and "#" not in p[len(ns):] for ns in a["namespaces"])]
        return None if list(result) == want else "filter passed %r, expected %r" % (result, want)


def obligations(prop, tier):
    out = []
    if prop in ("C01", "C09", "C14"):
        for inverse in (False, True):
            for okind in ("lit", "bnode", "iri-any", "iri-instance"):
                for pre in ("empty", "same-prop", "full"):
                    out.append(AnnotateSubject(okind, pre, inverse))
            out.append(AnnotateSubject("class", "empty", inverse, prop=RDF_TYPE))
            out.append(AnnotateSubject("class", "full", inverse, prop=RDF_TYPE))
        for skind in ("bnode", "iri-any", "iri-instance"):
            for pre in ("empty", "full"):
                out.append(AnnotateObject(skind, pre))
        d1 = {P: {"IRI": 1}}
        d2 = {P: {"IRI": 2, XSD_STRING: 1, "%<http://weso.es/shapes/D>": 1}, RDF_TYPE: {"http://ex.org/C": 1}}
        i1 = {Q: {"IRI": 1}}
        i2 = {Q: {"IRI": 2, "BNode": 1}}
        for inverse, direct, inv in ((False, d1, {}), (False, d2, {}), (False, {}, {}), (True, d1, i1), (True, d2, i2), (True, {}, i1), (True, {}, i2), (True, d1, {})):
            for classes in (("http://ex.org/C",), ("http://ex.org/C", "http://ex.org/E")):
                for pre in ("empty", "some", "full"):
                    out.append(ClassAggregation(direct, inv, inverse, classes, pre))
        for inverse in (False, True):
            for pre in ("empty", "some"):
                out.append(ClassAggregationSymbolicCount(inverse, pre))
        combos = [("class", "node"), ("class", "class", "node"), ("class", "node", "node"), ("class", "node", "lit"), ("class", "class", "bnode")]
        if tier != "quick":
            combos += [("class", "class", "node", "node"), ("class", "node", "node", "lit"), ("node", "node", "class", "class"), ("class", "bnode", "node", "lit")]
        for inverse in (False, True):
            for ok in combos:
                out.append(WholeProfile(len(ok), inverse, ok))
    if prop == "C11":
        out.append(CardinalityMapping(True))
        out.append(CardinalityMapping(False))
    if prop in ("C10", "C01"):      # the node set behind a shape (C10) is what the instance count and every figure are computed over (C01)
        for n in (1, 2):
            for rep in (False, True):
                out.append(ShapeMapTrackerStep(n, rep))
        out.append(ShapeMapTwoItems(False))
        out.append(ShapeMapTwoItems(True))
        for n_ref, n_new in ((1, 1), (2, 1), (2, 2)) + (((3, 2),) if tier != "quick" else ()):
            for clash in (False, True):
                out.append(MixedTrackerMerge(n_ref, n_new, clash))
    if prop == "C10":
        for mode in ("targets", "all"):   # AllClasses+TargetClasses cannot be configured together (C20); compound = all classes + qualifiers/shape map
            for inst in (RDF_TYPE, "http://ex.org/isa", "http://www.wikidata.org/prop/direct/P31"):
                for okind in ("iri", "bnode"):
                    for known in (False, True):
                        out.append(Relevance(mode, inst, okind, known))
    if prop == "C16":
        out.append(FilterYielder(["http://o.org/", "http://o.org/c/", "http://k.org/"], ["http://o.org/", "http://o.org/c/"]))
        out.append(FilterYielder(["http://o.org/c/", "http://o.org/", "http://o.org/c"], ["http://o.org/c/"]))
        for mode in ("targets", "all"):
            for subject in ("new", "known-other-class"):
                out.append(CapStep(mode, subject))
                out.append(CapStep(mode, subject, inst="http://ex.org/isa"))
            out.append(CapStep(mode, "new", other_pred=True, inst="http://www.wikidata.org/prop/direct/P31"))
            out.append(CapStep(mode, "class-is-tracked"))
            out.append(CapStep(mode, "new", other_pred=True))
    if prop == "C17":
        for inverse in (False, True):
            for already in (False, True):
                out.append(ExampleStep(inverse, already))
            out.append(ExampleTwoShapes(inverse))
    return out
