"""Independent recursive-descent reader of the ShExC subset sheXer emits (with or without figure tokens).

Not derived from sheXer: it implements the ShExC grammar for   PREFIX lines, shape labels, optional
`[<stem>~] AND`, `{ tripleConstraint (';' tripleConstraint)* }`, `^` inverse, value sets `[v]`, node kinds,
datatypes, shape references `@label`, `OR` between node constraints, cardinalities ? * + {k} and comments.
Comments are kept and parsed into figures (they carry sheXer's counts).  A syntax error raises ShExSyntaxError.
"""
import re

TOK = re.compile(r"⟦(\d+)⟧")


class ShExSyntaxError(Exception):
    pass


class Fig:
    """A printed figure: a token index (symbolic run) or the literal text (concrete run)."""

    def __init__(self, text):
        self.text = text
        m = TOK.fullmatch(text)
        self.token = int(m.group(1)) if m else None

    def __repr__(self):
        return "Fig(%s)" % self.text


class Statement:
    def __init__(self):
        self.inverse = False
        self.pred = None          # full IRI
        self.targets = []         # list of ('datatype', iri) | ('kind', 'IRI'|'BNode'|'NONLITERAL'|'LITERAL'|'.') | ('ref', shape iri) | ('value', iri)
        self.card = None          # 1 | '?' | '*' | '+' | int
        self.ratio = None
        self.count = None
        self.comments = []        # parsed: dict(ratio, count, obj, card, raw)
        self.raw = None


class Shape:
    def __init__(self):
        self.label = None
        self.n_instances = None
        self.stem = None
        self.statements = []
        self.example = None


class Schema:
    def __init__(self):
        self.prefixes = []        # [(prefix, ns)] in document order
        self.shapes = []

    def prefix_map(self):
        return dict(self.prefixes)


_PNAME = re.compile(r"^([A-Za-z][A-Za-z0-9_.-]*)?:((?:[A-Za-z0-9_:]|[^\x00-\x7f])(?:[A-Za-z0-9_.:-]|[^\x00-\x7f])*)?$")
_IRIREF = re.compile(r'^<([^\x00-\x20<>"{}|^`\\]*)>$')
_FREQ_MIXED = re.compile(r"^(\S+) % \((\S+) instances?\)\.$")
_FREQ_RATIO = re.compile(r"^(\S+) %$")
_FREQ_ABS = re.compile(r"^(\S+) instances?\.$")


def expand(token, pmap, what="name"):
    m = _IRIREF.match(token)
    if m:
        return m.group(1)
    m = _PNAME.match(token)
    if not m:
        raise ShExSyntaxError("not an IRIREF or prefixed name (%s): %r" % (what, token))
    pfx = m.group(1) or ""
    local = m.group(2) or ""
    if local.endswith("."):
        raise ShExSyntaxError("prefixed name ends with '.': %r" % token)
    if pfx not in pmap:
        raise ShExSyntaxError("undeclared prefix %r in %r" % (pfx, token))
    return pmap[pfx] + local


def parse_freq(text):
    text = text.strip()
    m = _FREQ_MIXED.match(text)
    if m:
        return Fig(m.group(1)), Fig(m.group(2))
    m = _FREQ_RATIO.match(text)
    if m:
        return Fig(m.group(1)), None
    m = _FREQ_ABS.match(text)
    if m:
        return None, Fig(m.group(1))
    raise ShExSyntaxError("unreadable frequency comment: %r" % text)


def parse_card(tok):
    if tok in ("", None):
        return 1
    if tok in ("?", "*", "+"):
        return tok
    m = re.fullmatch(r"\{(\d+)\}", tok)
    if m:
        return int(m.group(1))
    raise ShExSyntaxError("bad cardinality %r" % tok)


def _split_comment(line):
    """Split a line at the first '#' that is outside <...> (IRIs may contain '#')."""
    depth = 0
    for i, ch in enumerate(line):
        if ch == "<":
            depth += 1
        elif ch == ">":
            depth = max(0, depth - 1)
        elif ch == "#" and depth == 0:
            return line[:i], line[i + 1:]
    return line, None


def parse_target(tok, pmap):
    if tok in ("IRI", "BNode", "NONLITERAL", "LITERAL", "."):
        return ("kind", tok)
    if tok.startswith("@"):
        return ("ref", expand(tok[1:], pmap, "shape reference"))
    if tok.startswith("[") and tok.endswith("]"):
        return ("value", expand(tok[1:-1].strip(), pmap, "value set member"))
    return ("datatype", expand(tok, pmap, "datatype"))


def parse_comment_body(text, pmap):
    """'<freq> obj: K. Cardinality: c'  or  '<freq> with cardinality c' (choice statements)."""
    text = text.strip()
    m = re.match(r"^(.*?) obj: (.*)\. Cardinality: (\S+)$", text)
    if m:
        ratio, count = parse_freq(m.group(1))
        return dict(ratio=ratio, count=count, obj=parse_target(m.group(2).strip(), pmap), card=parse_card(m.group(3)), raw=text)
    m = re.match(r"^(.*?) with cardinality (\S+)$", text)
    if m:
        ratio, count = parse_freq(m.group(1))
        return dict(ratio=ratio, count=count, obj=None, card=parse_card(m.group(2)), raw=text)
    return dict(raw=text, other=True)


def parse(text):
    sch = Schema()
    lines = text.split("\n")
    i, n = 0, len(lines)
    # prefixes
    while i < n:
        line = lines[i].strip()
        if line == "":
            i += 1
            continue
        m = re.match(r"^PREFIX\s+([A-Za-z][A-Za-z0-9_.-]*)?:\s*<([^<>\s]*)>$", line)
        if not m:
            break
        sch.prefixes.append((m.group(1) or "", m.group(2)))
        i += 1
    pmap = {}
    for p, ns in sch.prefixes:
        if p in pmap and pmap[p] != ns:
            raise ShExSyntaxError("prefix %r declared twice with different namespaces" % p)
        pmap[p] = ns
    while i < n:
        line = lines[i]
        if line.strip() == "":
            i += 1
            continue
        # shape header
        code, comment = _split_comment(line)
        sh = Shape()
        head = code.strip()
        m = re.match(r"^(\S+)\s+\[<([^<>]*)>~\]\s+AND$", head)
        if m:
            head, sh.stem = m.group(1), m.group(2)
        if " " in head or head == "":
            raise ShExSyntaxError("bad shape header %r" % line)
        sh.label = expand(head, pmap, "shape label")
        if comment is not None:
            m = re.match(r"^\s*(\S+) instances?\.$", comment)
            if not m:
                raise ShExSyntaxError("bad instance-count comment %r" % comment)
            sh.n_instances = Fig(m.group(1))
        i += 1
        if i >= n or lines[i].strip() != "{":
            raise ShExSyntaxError("expected '{' after shape label %r" % head)
        i += 1
        cur = None
        closed = False
        while i < n:
            raw = lines[i]
            st = raw.strip()
            if st.startswith("}"):
                rest = st[1:].strip()
                if rest:
                    m = re.match(r"^// rdfs:comment (.*)$", rest)
                    if not m:
                        raise ShExSyntaxError("junk after '}': %r" % rest)
                    sh.example = m.group(1)
                closed = True
                i += 1
                break
            if st == "":
                i += 1
                continue
            if st.startswith("#"):
                if cur is None:
                    raise ShExSyntaxError("comment before the first constraint: %r" % st)
                cur.comments.append(parse_comment_body(st[1:], pmap))
                i += 1
                continue
            if st.startswith("//"):
                if cur is None:
                    raise ShExSyntaxError("annotation before the first constraint")
                cur.comments.append(dict(raw=st, annotation=True))
                i += 1
                continue
            code, comment = _split_comment(raw)
            cur = parse_statement(code.strip(), pmap)
            cur.raw = raw
            if comment is not None:
                cur.ratio, cur.count = parse_freq(comment)
            sh.statements.append(cur)
            i += 1
        if not closed:
            raise ShExSyntaxError("shape %s is not closed" % sh.label)
        # separators: every constraint but the last must end in ';'
        for k, st in enumerate(sh.statements):
            last = k == len(sh.statements) - 1
            if st.semicolon and last:
                raise ShExSyntaxError("trailing ';' after the last constraint of %s" % sh.label)
            if not st.semicolon and not last:
                raise ShExSyntaxError("missing ';' between constraints of %s" % sh.label)
        sch.shapes.append(sh)
    return sch


def parse_statement(code, pmap):
    st = Statement()
    st.semicolon = code.endswith(";")
    if st.semicolon:
        code = code[:-1].rstrip()
    toks = code.split()
    if toks and toks[0] == "^":
        st.inverse = True
        toks = toks[1:]
    if len(toks) < 2:
        raise ShExSyntaxError("constraint needs a predicate and a value expression: %r" % code)
    st.pred = expand(toks[0], pmap, "predicate")
    rest = toks[1:]
    card = ""
    if rest[-1] in ("?", "*", "+") or re.fullmatch(r"\{\d+\}", rest[-1]):
        card = rest[-1]
        rest = rest[:-1]
    st.card = parse_card(card)
    if not rest:
        raise ShExSyntaxError("constraint without value expression: %r" % code)
    # value expression: T (OR T)*   where a value set "[ x ]" may have been split
    joined = " ".join(rest)
    parts = [p.strip() for p in joined.split(" OR ")]
    for p in parts:
        if p == "" or (" " in p and not p.startswith("[")):
            raise ShExSyntaxError("bad value expression %r" % joined)
        st.targets.append(parse_target(p, pmap))
    return st


def check_closed(sch):
    """Well-formedness beyond syntax: labels unique, references resolve.  Returns a list of problems."""
    problems = []
    labels = [s.label for s in sch.shapes]
    for l in set(labels):
        if labels.count(l) > 1:
            problems.append("shape label %s defined %d times" % (l, labels.count(l)))
    seen = {}
    for p, ns in sch.prefixes:
        if p in seen:
            problems.append("prefix %r declared twice" % p)
        seen[p] = ns
    for s in sch.shapes:
        for st in s.statements:
            for kind, v in st.targets:
                if kind == "ref" and v not in labels:
                    problems.append("shape %s references undefined shape %s" % (s.label, v))
    return problems
