"""Row structures: the generative description of graphs used by the stage harnesses (DESIGN 3.3).

A structure is a list of Row objects.  A row describes one *kind of node*: its classes, node kind, its
outgoing triple pattern and incoming links from fresh untyped subjects; `mult` says how many copies of it
the graph holds: a concrete int, the name of a free symbolic multiplicity ("x0", "x1", ...) or
("own", rid): one copy per copy of the row that owns it.  Every symbolic state built from a structure is
realisable by construction, and a model converts mechanically into an N-Triples document.

This module also holds the *reference profiler* (refprof): an independent, straightforward count over a
list of triples, used (i) on the representative document of a structure with symbolic weights to build
the class profile handed to the real shexing stage, and (ii) on concrete documents as the oracle that
judges the real pipeline's output.
"""
from collections import OrderedDict

EX = "http://ex.org/"
RDF_TYPE = "http://www.w3.org/1999/02/22-rdf-syntax-ns#type"
XSD = "http://www.w3.org/2001/XMLSchema#"
DT = {"string": XSD + "string", "int": XSD + "integer", "lang": "http://www.w3.org/1999/02/22-rdf-syntax-ns#langString",
      "custom": EX + "dt", "date": XSD + "date", "email": XSD + "string"}      # "email": a plain literal whose lexical form contains '@'
SHAPES_NS = "http://weso.es/shapes/"


class Row:
    def __init__(self, rid, classes, mult=1, node="iri", out=(), in_fresh=()):
        self.rid, self.classes, self.mult, self.node = rid, list(classes), mult, node
        self.out, self.in_fresh = list(out), list(in_fresh)

    def to_json(self):
        return dict(rid=self.rid, classes=self.classes, mult=self.mult, node=self.node, out=self.out, in_fresh=self.in_fresh)


def free_vars(rows):
    out = []
    for r in rows:
        if isinstance(r.mult, str) and r.mult not in out:
            out.append(r.mult)
    return out


def row_by_id(rows):
    return {r.rid: r for r in rows}


def owner_of(rows):
    own = {}
    for r in rows:
        for _, tgt in r.out:
            if tgt[0] == "own":
                own[tgt[1]] = r.rid
    return own


def mult_of(rows, rid, values):
    """Concrete multiplicity of row rid under `values` (dict var -> int)."""
    r = row_by_id(rows)[rid]
    m = r.mult
    if isinstance(m, int):
        return m
    if isinstance(m, str):
        return values[m]
    if isinstance(m, tuple) and m[0] == "own":
        return mult_of(rows, m[1], values)
    raise ValueError(m)


def mult_var(rows, rid):
    """('const', n) | ('var', name) for the multiplicity of row rid."""
    r = row_by_id(rows)[rid]
    m = r.mult
    if isinstance(m, int):
        return ("const", m)
    if isinstance(m, str):
        return ("var", m)
    return mult_var(rows, m[1])


# ------------------------------------------------------------------------- documents

def node_term(row, i):
    if row.node == "bnode":
        return ("bnode", "_:%s_%d" % (row.rid, i))
    if row.node.startswith("iri:"):        # instances of this row live in their own namespace
        return ("iri", "%s%s_%d" % (row.node[4:], row.rid, i))
    return ("iri", "%sn/%s_%d" % (EX, row.rid, i))


def label_iri(name):
    return "<%s%s>" % (SHAPES_NS, name)


def node_order(rows, values, representative=False):
    """[(node term, row)] in document order (the order of generate_triples)."""
    byid = row_by_id(rows)
    owned = owner_of(rows)
    out = []

    def emit(row, i):
        out.append((node_term(row, i), row))
        for p, tgt in row.out:
            if tgt[0] == "own":
                emit(byid[tgt[1]], i)

    for row in rows:
        if row.rid in owned:
            continue
        kind, v = mult_var(rows, row.rid)
        n = v if kind == "const" else (1 if representative else values[v])
        for i in range(n):
            emit(row, i)
    return out


def shapemap_instances(rows, values, representative=False):
    """node -> [shape labels] as ShapeMapInstanceTracker builds it from one '<node>@<label>' item per (node, label)."""
    inst = OrderedDict()
    for term, row in node_order(rows, values, representative):
        if row.classes:
            inst[term[1]] = [label_iri(c) for c in row.classes]
    return inst


def shapemap_text(rows, values, representative=False):
    lines = []
    for term, row in node_order(rows, values, representative):
        for c in row.classes:
            lines.append("<%s>@%s" % (term[1], label_iri(c)))
    return "\n".join(lines)


def generate_triples(rows, values, representative=False, shapemap=False):
    """Ordered list of (s, p, o, weight_key) triples; terms are ('iri', v) | ('bnode', label) | ('lit', datatype, lexical).
    With representative=True every row with a symbolic multiplicity is emitted once (copy 0)."""
    byid = row_by_id(rows)
    owned = owner_of(rows)
    triples = []
    fresh = [0]

    def emit(row, i):
        s = node_term(row, i)
        if not shapemap:
            for c in row.classes:
                triples.append((s, RDF_TYPE, ("iri", c if c.startswith("http") else EX + c)))       # a class may be given as a full IRI (another namespace)
        owned_later = []
        seen = {}
        for (p, tgt) in row.out:
            kind = tgt[0]
            j = seen.get((p, tgt), 0)          # index among identical (property, target) entries: independent of the order of row.out
            seen[(p, tgt)] = j + 1
            tagj = "%s%s%d" % (p, "".join(str(x) for x in tgt), j)
            if kind == "lit":
                # lexical forms are unique per (node, property slot): examples can be attributed to the node they came from
                lex = "v%d_%s_%d" % (j, row.rid, i) if tgt[1] != "int" else str(j + 1 + 10 * i + 1000 * (ord(row.rid[0]) - 96))
                if tgt[1] == "email":
                    lex = "u%d_%d@%s.example.org" % (j, i, row.rid)
                o = ("lit", DT[tgt[1]], lex)
            elif kind == "iri":
                o = ("iri", "%sv/%s_%d_%s" % (EX, row.rid, i, tagj))
            elif kind == "bnode":
                o = ("bnode", "_:v_%s_%d_%s" % (row.rid, i, tagj))
            elif kind == "pool":
                o = node_term(byid[tgt[1]], tgt[2] if len(tgt) > 2 else 0)
            elif kind == "own":
                o = node_term(byid[tgt[1]], i)
                owned_later.append(byid[tgt[1]])
            elif kind == "litref":     # a plain literal whose lexical form is the IRI of an instance (must stay a literal)
                o = ("lit", DT["string"], node_term(byid[tgt[1]], 0)[1])
            elif kind == "class":      # value of a non-instantiation property that is a class IRI (plain IRI)
                o = ("iri", EX + tgt[1])
            else:
                raise ValueError(tgt)
            triples.append((s, EX + p, o))
        seen_in = {}
        for (p, kind) in row.in_fresh:
            j = seen_in.get((p, kind), 0)
            seen_in[(p, kind)] = j + 1
            tagj = "%s%s%d" % (p, kind, j)
            subj = ("iri", "%sw/%s_%d_%s" % (EX, row.rid, i, tagj)) if kind == "iri" else ("bnode", "_:w_%s_%d_%s" % (row.rid, i, tagj))
            triples.append((subj, EX + p, s))
        for orow in owned_later:
            emit(orow, i)

    for row in rows:
        if row.rid in owned:
            continue
        kind, v = mult_var(rows, row.rid)
        n = v if kind == "const" else (1 if representative else values[v])
        for i in range(n):
            emit(row, i)
    return triples


def nt_term(t):
    if t[0] == "iri":
        return "<%s>" % t[1]
    if t[0] == "bnode":
        return t[1]
    dt, lex = t[1], t[2]
    if dt == DT["string"]:
        return '"%s"' % lex
    if dt == DT["lang"]:
        return '"%s"@en' % lex
    return '"%s"^^<%s>' % (lex, dt)


def to_ntriples(triples):
    return "".join("%s <%s> %s .\n" % (nt_term(s), p, nt_term(o)) for s, p, o in triples)


# ------------------------------------------------------------------------- reference profiler

def shape_name(class_iri, shapes_ns=SHAPES_NS):
    """Reference label: last path/fragment segment of the class IRI in the shapes namespace."""
    if class_iri.startswith("<") and class_iri.endswith(">"):
        return "%" + class_iri          # shape-map labels are used as they are
    tail = class_iri.rstrip("/#")
    for sep in ("#", "/"):
        if sep in tail:
            tail = tail[tail.rfind(sep) + 1:]
    return "%<" + shapes_ns + tail + ">"


def term_key(t):
    return t[1]


def term_type(t):
    return {"iri": "IRI", "bnode": "BNode"}.get(t[0]) or t[1]


def refprof(triples, inverse=False, inst_prop=RDF_TYPE, targets=None, shapes_ns=SHAPES_NS, instances=None):
    """Reference two-pass profile.
    -> instances: OrderedDict node -> [classes]; feats: node -> (direct, inverse) with direct: OrderedDict prop -> OrderedDict kind -> n."""
    if instances is None:
        instances = OrderedDict()
        for s, p, o in triples:
            if p == inst_prop and o[0] in ("iri", "bnode") and (targets is None or o[1] in targets):
                instances.setdefault(term_key(s), []).append(o[1])
    feats = {n: (OrderedDict(), OrderedDict()) for n in instances}

    def bump(d, prop, kind):
        d.setdefault(prop, OrderedDict())
        d[prop][kind] = d[prop].get(kind, 0) + 1

    for s, p, o in triples:
        sk, ok = term_key(s), (term_key(o) if o[0] != "lit" else None)
        if sk in instances:
            kind = o[1] if p == inst_prop and o[0] != "lit" else term_type(o)
            bump(feats[sk][0], p, kind)
            if p != inst_prop and o[0] in ("iri", "bnode") and ok in instances:
                for c in instances[ok]:
                    bump(feats[sk][0], p, shape_name(c, shapes_ns))
        if inverse and ok is not None and ok in instances:
            kind = s[1] if p == inst_prop else term_type(s)
            bump(feats[ok][1], p, kind)
            if p != inst_prop and s[0] == "iri" and sk in instances:
                for c in instances[sk]:
                    bump(feats[ok][1], p, shape_name(c, shapes_ns))
    return instances, feats


def class_profile(instances, feats, weight, inverse=False, inst_prop=RDF_TYPE, add=lambda a, b: a + b, zero=0):
    """Aggregate to class -> prop -> kind -> cardinality -> count, inserting keys in first-seen order exactly
    as ClassProfiler does.  weight(node) is an int or a symbolic integer.  With inverse=True the per-class value
    is a pair (direct, inverse) as in IncludeReverseFeaturesStrategy."""
    profile, counts = OrderedDict(), OrderedDict()
    for node, classes in instances.items():
        for c in classes:
            if c not in profile:
                profile[c] = (OrderedDict(), OrderedDict()) if inverse else OrderedDict()
                counts[c] = zero
            counts[c] = add(counts[c], weight(node))
    for node, classes in instances.items():
        w = weight(node)
        for direction in ((0, 1) if inverse else (0,)):
            tuples = []
            for prop, kinds in feats[node][direction].items():
                for kind, n in kinds.items():
                    for card in ((1,) if prop == inst_prop else (n, "+")):
                        tuples.append((prop, kind, card))
            for c in classes:
                target = profile[c][direction] if inverse else profile[c]
                for prop, kind, card in tuples:
                    cell = target.setdefault(prop, OrderedDict()).setdefault(kind, OrderedDict())
                    cell[card] = add(cell.get(card, zero), w)
    return profile, counts


def reference_counts(instances, feats, weight, inverse=False, inst_prop=RDF_TYPE, add=lambda a, b: a + b, zero=0):
    """Oracle figures, computed per (class, direction, prop, kind, card) without reference to insertion order:
    number of instances of the class with exactly `card` values (>= 1 for '+') of that kind."""
    out = {}
    sizes = {}
    for node, classes in instances.items():
        for c in set(classes):
            k = classes.count(c)
            sizes[c] = add(sizes.get(c, zero), weight(node)) if k == 1 else add(sizes.get(c, zero), weight(node) * k)
    for node, classes in instances.items():
        w = weight(node)
        for direction in ((0, 1) if inverse else (0,)):
            for prop, kinds in feats[node][direction].items():
                for kind, n in kinds.items():
                    for c in classes:
                        for card in ((1,) if prop == inst_prop else (n, "+")):
                            key = (c, direction, prop, kind, card)
                            out[key] = add(out.get(key, zero), w)
    return out, sizes
