"""Shims injected into /repo module globals (no change to /repo itself).  Each is part of the claim and
is listed in the evidence of the checks that rely on it.  All shims delegate to the original object
when they receive plain python values, so concrete replays through shimmed modules stay faithful."""
import builtins
import importlib

from symx import HarnessError, RegexShim, SymStr, cur, sym_float, sym_int
from symx.core import Ctx

_DONE = [False]
_MISSING = object()

NUM_MODULES = [
    "shexer.core.shexing.strategy.abstract_shexing_strategy",
    "shexer.core.shexing.strategy.direct_shexing_strategy",
    "shexer.core.shexing.strategy.direct_and_inverse_shexing_strategy",
    "shexer.io.shex.formater.statement_serializers.frequency_strategy.ratio_freq_serializer",
]
REGEX_SHIMS = [
    ("shexer.io.graph.yielder.big_ttl_triples_yielder", "_OTHER_BLANKS"),
    ("shexer.io.graph.yielder.big_ttl_triples_yielder", "_SEVERAL_BLANKS"),
    ("shexer.io.graph.yielder.big_ttl_triples_yielder", "_QUOTES_FOR_LITERALS"),
    ("shexer.io.graph.yielder.big_ttl_triples_yielder", "_INIT_INLINE_COMMENT"),
    ("shexer.core.shexing.strategy.minimal_iri_strategy.annotate_min_iri_strategy", "_SEP_CHARS"),
    ("shexer.io.shape_map.node_selector.node_selector_parser", "_WHITES_REGEX"),
    ("shexer.io.shex.formater.shex_serializer", "_INIT_URI_PATTERN"),
]
STR_FLOAT_MODULES = [
    "shexer.utils.triple_yielders",
    "shexer.io.graph.yielder.big_ttl_triples_yielder",
]

STUBS_DOC = [
    "float/int in abstract_shexing_strategy, direct_shexing_strategy, direct_and_inverse_shexing_strategy, ratio_freq_serializer -> symx.sym_float/sym_int (identity on plain numbers)",
    "float in utils.triple_yielders and big_ttl_triples_yielder -> real float() on concrete text, HarnessError on symbolic characters",
    "rdflib.plugins.sparql.prepareQuery as seen by node_selector_parser -> no-op (syntax check of SPARQL selectors is outside symbolic reach)",
    "every compiled regex held in a module global of shexer.* and the module-level `re` of those modules -> symx.symre.SymRegex / RE_PROXY: the pattern is parsed by CPython's own re parser from its current text and matched by a backtracking matcher that forks on symbolic characters (same match positions and groups as re; validated against re by the self-test); identity on plain str",
]


def str_float(x=0.0):
    if isinstance(x, SymStr):
        if x.concrete():
            return builtins.float(x.plain())
        # float() rejects any text holding a character outside the float-literal alphabet: if a *concrete*
        # character already decides that, raise what float() raises; otherwise the token is outside the model.
        for it in x.items:
            if isinstance(it, str) and not (it.isspace() or it.isnumeric() or it in "+-.eE_infatyINFATY"):
                raise ValueError("could not convert string to float")
        ex = Ctx.cur
        if ex is not None:
            ex.flag_error("float() of a string with symbolic characters")
        raise HarnessError("float() of a string with symbolic characters")
    return sym_float(x)


_SAVED = []
_INT_MODULES = [m for m in NUM_MODULES if not m.endswith("abstract_shexing_strategy")]   # that module uses `int` as a *type*


def install():
    if _DONE[0]:
        return
    import builtins as _b
    for m in NUM_MODULES:
        mod = importlib.import_module(m)
        _SAVED.append((mod, "float", mod.__dict__.get("float", _MISSING)))
        mod.float = sym_float
        if m in _INT_MODULES:
            _SAVED.append((mod, "int", mod.__dict__.get("int", _MISSING)))
            mod.int = sym_int
    for m in STR_FLOAT_MODULES:
        mod = importlib.import_module(m)
        _SAVED.append((mod, "float", mod.__dict__.get("float", _MISSING)))
        mod.float = str_float
    for m, name in REGEX_SHIMS:
        importlib.import_module(m)
    import sys
    for name, mod in list(sys.modules.items()):
        if name == "shexer" or name.startswith("shexer."):
            wrap_regexes(mod)
    from symx import instrument
    if _on_module_loaded not in instrument.POST_IMPORT_HOOKS:
        instrument.POST_IMPORT_HOOKS.append(_on_module_loaded)
    nsp = importlib.import_module("shexer.io.shape_map.node_selector.node_selector_parser")
    _SAVED.append((nsp, "sparql", nsp.sparql))
    nsp.sparql = _NoSparql()
    _DONE[0] = True


def wrap_regexes(mod):
    """Every compiled pattern held in a global of the module, and the module's `re`, accept strings with symbolic characters afterwards
    (symx.symre: CPython's own pattern parser + a backtracking matcher that forks on symbolic characters; identity on plain str).
    Generic on purpose: a regex added or edited in /repo is picked up without touching the harness."""
    import re as _re
    from symx import SymRegex, RE_PROXY
    if mod is None or not hasattr(mod, "__dict__"):
        return
    for name, obj in list(vars(mod).items()):
        if isinstance(obj, _re.Pattern):
            _SAVED.append((mod, name, obj))
            setattr(mod, name, SymRegex(obj))
        elif obj is _re:
            _SAVED.append((mod, name, obj))
            setattr(mod, name, RE_PROXY)


def _on_module_loaded(mod):
    if _DONE[0]:
        wrap_regexes(mod)


class _NoSparql:
    """rdflib's SPARQL grammar (pyparsing) cannot be executed symbolically: prepareQuery is a no-op (C10 states it)."""

    @staticmethod
    def prepareQuery(*a, **k):
        return None


def uninstall():
    if not _DONE[0]:
        return
    for mod, name, orig in reversed(_SAVED):
        if orig is _MISSING:
            if name in mod.__dict__:
                delattr(mod, name)
        else:
            setattr(mod, name, orig)
    del _SAVED[:]
    _DONE[0] = False


class real_code:
    """Context manager: the un-shimmed /repo code (used for every concrete witness run)."""

    def __enter__(self):
        self.was = _DONE[0]
        uninstall()

    def __exit__(self, *a):
        if self.was:
            install()
        return False
