"""H-DELIVERY (C08): the hand-written delivery channels executed on documents with symbolic characters.

Code under test (real, from /repo): TsvNtTriplesYielder, NtTriplesYielder, BigTtlTriplesYielder, Multi{Nt,TsvNt,BigTtl}TriplesYielder /
MultifileBaseTripleYielder, BaseTriplesYielder._decide_line_reader, RawStringLineReader, FileLineReader.

Three kinds of obligation, all relational ("the same statements delivered in another way give the same triples"):

  tsv/<skeleton>        the terms of an N-Triples statement skeleton, written TAB-separated, are read by the TSV reader as exactly those terms
                        (the N-Triples side of the equivalence is C06's obligation on the same skeleton)
  raw-vs-file/<reader>  a two-statement document given as raw string and as a file (blank lines, LF / CRLF, with / without a final newline)
  multi/<reader>        two files through the multi-file yielder = the concatenation of the two single-file readings; counters add up

Stub: in the *symbolic* run `open()` of shexer.io.line_reader.file_line_reader is replaced by a stream that iterates the lines of the symbolic
document the way a text-mode file does (universal newlines).  Every path is re-run on a concrete model with REAL temporary files and the pristine
module (per-path differential), and counterexamples are replayed with real files in a fresh interpreter.
"""
import os
import tempfile

import z3

from symx import Explorer, Hang, HarnessError, SymStr, concretize, leak_scan
from symx.symstr import as_z3, _or
from . import nt as NTH
from . import shims
from .common import absorb_stats, run_with_alarm

FUNCTIONS = [
    "shexer.io.graph.yielder.tsv_nt_triples_yielder.TsvNtTriplesYielder.yield_triples/_look_for_tokens",
    "shexer.io.graph.yielder.multifile_base_triples_yielder.MultifileBaseTripleYielder.yield_triples/_yield_triples_of_file/yielded_triples/error_triples",
    "MultiNtTriplesYielder / MultiTsvNtTriplesYielder / MultiBigTtlTriplesYielder._constructor_file_yielder",
    "shexer.io.graph.yielder.base_triples_yielder.BaseTriplesYielder._decide_line_reader",
    "shexer.io.line_reader.raw_string_line_reader.RawStringLineReader.read_lines", "shexer.io.line_reader.file_line_reader.FileLineReader.read_lines",
    "NtTriplesYielder.yield_triples", "BigTtlTriplesYielder.yield_triples", "shexer.utils.triple_yielders.tune_token / tune_prop",
]
ASSUMPTIONS = [
    "TSV: one statement per line, three TAB-separated N-Triples terms, no TAB inside a lexical form (TSV has no quoting of its separator)",
    "files are UTF-8 text; line terminators LF or CRLF; the stub stream of the symbolic run follows Python's universal-newline iteration (validated on every path against real files)",
    "rdflib-parsed formats, gz/xz/zip codecs and URLs are not executed symbolically: they are exercised by the concrete delivery matrix of the end-to-end witnesses only",
]


# ------------------------------------------------------------------------- building

def build_terms(ex, spec):
    """-> [(s_tok, p_tok, o_tok)], expected, parts   (same term grammar as H-NT)."""
    toks, expected, parts_all = [], [], []
    for si, st in enumerate(spec["stmts"]):
        s_tok, s_exp, s_parts = NTH._build_term(ex, "s%d_s" % si, st["subj"])
        p_tok, p_exp, p_parts = NTH._build_term(ex, "s%d_p" % si, dict(kind="iri", **st.get("pred", {})))
        o_tok, o_exp, o_parts = NTH._build_term(ex, "s%d_o" % si, st["obj"])
        toks.append((s_tok, p_tok, o_tok))
        expected.append((s_exp, dict(cls="Property", val=p_exp["val"]), o_exp))
        parts_all.append(dict(subj=s_parts, pred=p_parts, obj=o_parts, tail="sp_dot", okind=st["obj"]["kind"]))
    return toks, expected, parts_all


def no_tab(ex, toks):
    for tr in toks:
        for t in tr:
            for it in SymStr.lift(t).items:
                if not isinstance(it, str):
                    ex.add(it != 9)


def line_for(reader, tr):
    s, p, o = tr
    if reader == "tsv":
        return s + "\t" + p + "\t" + o
    return s + " " + p + " " + o + " ."


def join(lines, layout):
    """-> (document, [file lines as a text-mode stream yields them])"""
    term = "\r\n" if layout.startswith("crlf") else "\n"
    final = not layout.endswith("no-final-newline")
    pieces = []
    for i, l in enumerate(lines):
        pieces.append(l)
        if layout.endswith("blank-lines") and i == 0:
            pieces.append("")
            pieces.append("   ")
    doc, stream = "", []
    for i, l in enumerate(pieces):
        last = i == len(pieces) - 1
        t = term if (not last or final) else ""
        doc = doc + l + t
        stream.append(l + ("\n" if t else ""))
    return doc, stream


# ------------------------------------------------------------------------- running the real readers

def _yielder(reader, **kw):
    if reader == "nt":
        from shexer.io.graph.yielder.nt_triples_yielder import NtTriplesYielder as Y
    elif reader == "tsv":
        from shexer.io.graph.yielder.tsv_nt_triples_yielder import TsvNtTriplesYielder as Y
    elif reader == "ttl":
        from shexer.io.graph.yielder.big_ttl_triples_yielder import BigTtlTriplesYielder as Y
    else:
        raise HarnessError(reader)
    kw.setdefault("source_file", None)
    return Y(**kw)


def _multi(reader, files):
    if reader == "nt":
        from shexer.io.graph.yielder.multi_nt_triples_yielder import MultiNtTriplesYielder as Y
    elif reader == "tsv":
        from shexer.io.graph.yielder.multi_tsv_nt_triples_yielder import MultiTsvNtTriplesYielder as Y
    else:
        from shexer.io.graph.yielder.multi_big_ttl_files_triple_yielder import MultiBigTtlTriplesYielder as Y
    return Y(list_of_files=files)


def _drain(y):
    out = [tuple(NTH._obs(x) for x in t) for t in y.yield_triples()]
    return out, y.yielded_triples, y.error_triples


class _Stream:
    def __init__(self, lines):
        self._lines = lines

    def __enter__(self):
        return iter(self._lines)

    def __exit__(self, *a):
        return False


class _StubFiles:
    """Replaces open() of the file line reader by streams over symbolic lines (symbolic run only)."""

    def __init__(self, files):
        self.files = files

    def __enter__(self):
        from shexer.io.line_reader import file_line_reader as mod
        files = self.files
        mod.open = lambda path, mode="r", errors=None: _Stream(files[path])
        return self

    def __exit__(self, *a):
        from shexer.io.line_reader import file_line_reader as mod
        del mod.open
        return False


class _RealFiles:
    """Concrete runs: the documents are written to real temporary files (newline='' keeps the terminators)."""

    def __init__(self, docs):
        self.docs = docs
        self.paths = {}

    def __enter__(self):
        self.dir = tempfile.mkdtemp(prefix="c08_")
        for name, doc in self.docs.items():
            p = os.path.join(self.dir, name)
            with open(p, "w", encoding="utf-8", newline="") as f:
                f.write(doc)
            self.paths[name] = p
        return self

    def __exit__(self, *a):
        for p in self.paths.values():
            os.unlink(p)
        os.rmdir(self.dir)
        return False


def _differ(a, b):
    """z3 Bool / bool: two observed triple lists differ."""
    if len(a) != len(b):
        return True
    conds = []
    for ta, tb in zip(a, b):
        for (ca, va), (cb, vb) in zip(ta, tb):
            if ca != cb:
                return True
            e = SymStr.lift(va).eq_expr(vb)
            conds.append((not e) if isinstance(e, bool) else z3.Not(e))
    return _or(conds)


# ------------------------------------------------------------------------- the three obligation kinds (symbolic and concrete share `observe`)

def _try(fn):
    """One channel: its observation, or ('EXC', type name) - a channel that raises is compared with the others like any other outcome."""
    try:
        return fn()
    except (Hang, HarnessError):
        raise
    except Exception as e:  # noqa
        return ("EXC", type(e).__name__, 0)


def observe(kind, reader, docs, streams, concrete):
    """-> dict of observations.  docs: name -> document (SymStr / str); streams: name -> list of lines (symbolic run only)."""
    if kind == "tsv":
        return dict(tsv=_try(lambda: _drain(_yielder("tsv", raw_graph=docs["doc"]))), nt=_try(lambda: _drain(_yielder("nt", raw_graph=docs["nt"]))))
    ctxm = _RealFiles(docs) if concrete else _StubFiles(streams)
    with ctxm as fs:
        path = (lambda n: fs.paths[n]) if concrete else (lambda n: n)
        if kind == "raw-vs-file":
            return dict(raw=_drain(_yielder(reader, raw_graph=docs["doc"])), file=_drain(_yielder(reader, source_file=path("doc"))))
        if kind == "multi":
            return dict(multi=_drain(_multi(reader, [path("f1"), path("f2")])), f1=_drain(_yielder(reader, source_file=path("f1"))),
                        f2=_drain(_yielder(reader, source_file=path("f2"))))
    raise HarnessError(kind)


def judge(kind, obs, expected):
    """-> (bad: z3 Bool / bool, what)"""
    if kind == "tsv":
        # relational: the TAB-separated and the N-Triples rendering of the same terms are read alike (whether or not both are right is C06's question)
        if obs["tsv"][0] == "EXC" or obs["nt"][0] == "EXC":
            return obs["tsv"][:2] != obs["nt"][:2], "one channel raises: TSV %r vs N-Triples %r" % (obs["tsv"][:2], obs["nt"][:2])
        return _differ(obs["tsv"][0], obs["nt"][0]), "TSV and N-Triples renderings of the same statement are read differently"
    if kind == "raw-vs-file":
        # the error_triples counters legitimately differ (a file reader sees the blank lines the raw-string reader skips): only the triples are compared
        (ra, rn, re_), (fa, fn_, fe) = obs["raw"], obs["file"]
        bad = _differ(ra, fa)
        if bad is False:
            bad, what = NTH._mismatch_expr(fa, 0, expected)
            return bad, "both channels: " + what
        return bad, "raw string and file give different triples"
    if kind == "multi":
        (ma, mn, me), (a1, n1, e1), (a2, n2, e2) = obs["multi"], obs["f1"], obs["f2"]
        return _differ(ma, list(a1) + list(a2)), "several files differ from the concatenation of the single files"
    raise HarnessError(kind)


def _plain_obs(obs, m):
    out = {}
    for k, (tr, n, e) in obs.items():
        if tr == "EXC":
            out[k] = ["EXC", n]
            continue
        out[k] = [[[list(x) for x in t] for t in (concretize(tr, m) if m is not None else tr)], n, e]
    return out


def run_obligation(res, kind, reader, spec, layout, findings):
    shims.install()
    ex = Explorer(max_paths=spec.get("max_paths", 60000), path_ops=60000, path_wall_s=120)

    def build(ex):
        toks, expected, parts = build_terms(ex, spec)
        if reader == "tsv" or kind == "tsv":
            no_tab(ex, toks)
        lines = [line_for("tsv" if kind == "tsv" else reader, tr) for tr in toks]
        if kind == "multi":
            d1, s1 = join(lines[:-1], layout)
            d2, s2 = join(lines[-1:], "lf")
            return dict(f1=d1, f2=d2), dict(f1=s1, f2=s2), expected, parts
        d, s = join(lines, layout)
        if kind == "tsv":
            dn, _ = join([line_for("nt", tr) for tr in toks], layout)
            return dict(doc=d, nt=dn), dict(doc=s), expected, parts
        return dict(doc=d), dict(doc=s), expected, parts

    def fn(ex):
        docs, streams, expected, parts = build(ex)
        try:
            obs, tag = observe(kind, reader, docs, streams, concrete=False), "OK"
        except Hang:
            ex.stats["hangs"] += 1
            obs, tag = None, "HANG"
        except HarnessError:
            raise
        except Exception as e:  # noqa
            obs, tag = e, "EXC"
        return docs, expected, parts, tag, obs

    def on_path(r, ex):
        docs, expected, parts, tag, obs = r
        res["reach"] += 1
        if tag == "OK":
            if leak_scan(obs):
                raise HarnessError("placeholder buffer leaked into the readers' output")
            bad, what = judge(kind, obs, expected)
        elif tag == "HANG":
            bad, what = True, "reader does not terminate"
        else:
            bad, what = True, "reader raised %s: %s" % (type(obs).__name__, str(NTH.concretize_msg(obs))[:120])
        kn = NTH.known_expr(findings, parts) if (kind == "tsv" or reader in ("nt", "tsv")) else []
        res["queries"] += 1
        vm = None
        if bad is not False:
            bad_z = as_z3(bad)
            not_known = z3.Not(z3.Or([as_z3(e) for _, e in kn])) if kn else z3.BoolVal(True)
            vm = ex.model(bad_z, not_known)
            if vm is not None:
                if len(res["violations"]) < 3:
                    cdocs = {k: (d.model_str(vm) if isinstance(d, SymStr) else d) for k, d in docs.items()}
                    cexp = [[dict(cls=e["cls"], val=concretize(e["val"], vm)) for e in tr] for tr in expected]
                    res["violations"].append(dict(what=what, replay=dict(family="delivery", args=dict(kind=kind, reader=reader, docs=cdocs, expected=cexp)),
                                                  expected=cexp, observed=repr(_plain_obs(obs, vm))[:300] if tag == "OK" else tag))
            else:
                for fid, e in kn:
                    if ex.sat(bad_z, as_z3(e)):
                        res["known"][fid] = res["known"].get(fid, 0) + 1
        m = vm or ex.model()
        cdocs = {k: (d.model_str(m) if isinstance(d, SymStr) else d) for k, d in docs.items()}
        with shims.real_code():
            ctag, cobs = run_with_alarm(lambda: observe(kind, reader, cdocs, None, concrete=True), 3.0)
            if ctag == "HANG" and tag != "HANG":      # the symbolic run terminated: give the concrete one a generous second chance before calling it a disagreement (loaded machine)
                ctag, cobs = run_with_alarm(lambda: observe(kind, reader, cdocs, None, concrete=True), 60.0)
        sym = ["OK", _plain_obs(obs, m)] if tag == "OK" else ([tag, type(obs).__name__] if tag == "EXC" else [tag])
        con = ["OK", _plain_obs(cobs, None)] if ctag == "OK" else ([ctag, type(cobs).__name__] if ctag == "EXC" else [ctag])
        if sym != con:
            raise HarnessError("engine/impl disagreement on %r: symbolic %r vs concrete (real files) %r" % (cdocs, sym, con))
        res["witnesses"] += 1
        if len(res["samples"]) < 1:
            res["samples"].append(dict(documents=cdocs, result=repr(con)[:300]))

    ex.explore(fn, on_path)
    absorb_stats(res, ex)


def replay(args):
    """Engine-independent judgement with real files: True if the violation reproduces."""
    tag, obs = run_with_alarm(lambda: observe(args["kind"], args["reader"], args["docs"], None, concrete=True), 5.0)
    if tag != "OK":
        print("readers %s on %r: %r" % (tag, args["docs"], obs))
        return True
    expected = [tuple(dict(cls=e["cls"], val=e["val"]) for e in tr) for tr in args["expected"]]
    bad, what = judge(args["kind"], obs, expected)
    if bad is True or (bad is not False and z3.is_true(z3.simplify(as_z3(bad)))):
        print("%s\ndocuments %r\nobserved %r" % (what, args["docs"], _plain_obs(obs, None)))
        return True
    return False


# ------------------------------------------------------------------------- obligation lists

def obligations(tier):
    """-> [(name, kwargs for run_obligation)]"""
    out = []
    q = tier == "quick"
    for name, spec in NTH.skeletons(tier):
        if len(spec["stmts"]) != 1 or spec["stmts"][0].get("tail", "sp_dot") != "sp_dot" or spec["stmts"][0].get("seps", [" ", " "]) != [" ", " "]:
            continue
        if q and not name.startswith(("nodes/", "lit/empty/", "lit/F/", "lit/FF/", "lit/q/", "lit/b/", "lit/Fq/")):
            continue
        out.append(("tsv/" + name, dict(kind="tsv", reader="tsv", spec=spec, layout="lf")))
    F = None
    two = [dict(stmts=[dict(subj=NTH.S_IRI_FREE, obj=NTH._lit([F], NTH.NONE)), dict(subj=NTH.S_BN, obj=NTH.O_IRI_FREE)]),
           dict(stmts=[dict(subj=NTH.S_BN, obj=NTH._lit([F, F], NTH.LANG_EN)), dict(subj=NTH.S_IRI, obj=NTH._lit([F], NTH.DT_INT))])]
    three = [dict(stmts=two[0]["stmts"] + [dict(subj=NTH.S_IRI, obj=NTH._lit([F], NTH.DT_CUSTOM))])]
    layouts = ["lf", "lf/no-final-newline", "lf/blank-lines", "crlf", "crlf/no-final-newline"] + ([] if q else ["crlf/blank-lines"])
    for reader in ("nt", "tsv", "ttl"):
        for i, spec in enumerate(two):
            for layout in layouts:
                out.append(("raw-vs-file/%s/%d/%s" % (reader, i, layout), dict(kind="raw-vs-file", reader=reader, spec=spec, layout=layout)))
        for i, spec in enumerate(two + three):
            for layout in (("lf", "lf/no-final-newline") if q else ("lf", "lf/no-final-newline", "crlf", "lf/blank-lines")):
                out.append(("multi/%s/%d/%s" % (reader, i, layout), dict(kind="multi", reader=reader, spec=spec, layout=layout)))
    return out


# ------------------------------------------------------------------------- concrete delivery matrix (end-to-end witnesses of H-STAGE; NOT solver-decided)

CHANNELS = ["nt/file", "nt/files", "nt/gz", "nt/xz", "nt/zip", "nt/zips", "nt/zipdir", "nt/gzmulti", "turtle/gzmulti", "turtle/zips", "turtle/zipdir", "tsv/raw", "tsv/file", "tsv/files", "tsv/gz", "ttl_iter/raw", "ttl_iter/file", "ttl_iter/files", "ttl_iter/gz",
            "turtle/raw", "turtle/file", "turtle/files", "turtle/gz", "turtle/zip", "xml/raw", "xml/file", "xml/xz", "n3/raw", "n3/file", "json-ld/raw", "json-ld/file", "rdflib"]
RDFLIB_REPARSED = ("turtle/", "xml/", "n3/")       # parsed by rdflib once per pass: see finding DELIVERY-rdflib-reparse-bnode-instances


class Delivered:
    """Context manager: the graph (list of (s, p, o) harness terms) delivered through one channel -> keyword arguments for Shaper."""

    def __init__(self, triples, channel):
        self.triples, self.channel = triples, channel

    def __enter__(self):
        import gzip
        import lzma
        import zipfile
        import rdflib
        from shexer.consts import NT, TSV_SPO, TURTLE, TURTLE_ITER, RDF_XML, JSON_LD, N3, GZ, XZ, ZIP
        from . import rows as R
        self.dir = tempfile.mkdtemp(prefix="c08_")
        fmt, how = self.channel.split("/") if "/" in self.channel else (self.channel, None)
        nt_doc = R.to_ntriples(self.triples)
        if fmt == "rdflib":
            g = rdflib.Graph()
            g.parse(data=nt_doc, format="nt")
            return dict(rdflib_graph=g)
        half = len(self.triples) // 2
        parts = [self.triples[:half], self.triples[half:]]
        if fmt in ("nt", "ttl_iter"):
            render = R.to_ntriples
            const, ext = (NT if fmt == "nt" else TURTLE_ITER), "nt"
        elif fmt == "tsv":
            render = lambda ts: "".join("%s\t<%s>\t%s\n" % (R.nt_term(s_), p_, R.nt_term(o_)) for s_, p_, o_ in ts)
            const, ext = TSV_SPO, "tsv"
        else:
            rd = {"turtle": ("turtle", TURTLE, "ttl"), "xml": ("xml", RDF_XML, "rdf"), "n3": ("n3", N3, "n3"), "json-ld": ("json-ld", JSON_LD, "jsonld")}[fmt]

            def render(ts, rd=rd):
                g = rdflib.Graph()
                g.parse(data=R.to_ntriples(ts), format="nt")
                out = g.serialize(format=rd[0])
                return out.decode("utf-8") if isinstance(out, bytes) else out
            const, ext = rd[1], rd[2]
        if how == "raw":
            return dict(raw_graph=render(self.triples), input_format=const)

        def write(name, text, opener=open):
            path = os.path.join(self.dir, name)
            with opener(path, "wb") as f:
                f.write(text.encode("utf-8"))
            return path
        if how == "file":
            return dict(graph_file_input=write("g." + ext, render(self.triples)), input_format=const)
        if how == "files":
            return dict(graph_list_of_files_input=[write("a." + ext, render(parts[0])), write("b." + ext, render(parts[1]))], input_format=const)
        if how == "gz":
            return dict(graph_file_input=write("g.%s.gz" % ext, render(self.triples), gzip.open), input_format=const, compression_mode=GZ)
        if how == "gzmulti":     # one .gz file made of two gzip members (what `cat a.gz b.gz > all.gz` produces); for line-oriented syntaxes the members are the two halves
            path = os.path.join(self.dir, "g.%s.gz" % ext)
            whole = render(self.triples)
            cut = len(render(parts[0])) if fmt in ("nt", "tsv", "ttl_iter") else len(whole) // 2
            with open(path, "wb") as f:
                f.write(gzip.compress(whole[:cut].encode("utf-8")))
                f.write(gzip.compress(whole[cut:].encode("utf-8")))
            return dict(graph_file_input=path, input_format=const, compression_mode=GZ)
        if how == "xz":
            return dict(graph_file_input=write("g.%s.xz" % ext, render(self.triples), lzma.open), input_format=const, compression_mode=XZ)
        if how in ("zip", "zipdir"):       # zipdir: the members live in a folder of the archive (what `zip -r g.zip data/` produces)
            path = os.path.join(self.dir, "g.zip")
            folder = "data/part/" if how == "zipdir" else ""
            with zipfile.ZipFile(path, "w") as z:
                z.writestr(folder + "a." + ext, render(parts[0]))
                z.writestr(folder + "b." + ext, render(parts[1]))
            return dict(graph_file_input=path, input_format=const, compression_mode=ZIP)
        if how == "zips":      # several archives, one member each
            paths = []
            for i, part in enumerate(parts):
                path = os.path.join(self.dir, "g%d.zip" % i)
                with zipfile.ZipFile(path, "w") as z:
                    z.writestr("m%d.%s" % (i, ext), render(part))
                paths.append(path)
            return dict(graph_list_of_files_input=paths, input_format=const, compression_mode=ZIP)
        raise HarnessError(self.channel)

    def __exit__(self, *a):
        import shutil
        shutil.rmtree(self.dir, ignore_errors=True)
        return False


def splits_blank_nodes(triples):
    """Several files: a blank node label shared by two documents denotes two nodes (RDF semantics, and what rdflib does) - such graphs are not delivered in pieces."""
    half = len(triples) // 2

    def labels(ts):
        return {t[1] for s_, _, o_ in ts for t in (s_, o_) if t[0] == "bnode"}
    return bool(labels(triples[:half]) & labels(triples[half:]))
