"""Concrete replay of a counterexample against the real /repo code (no symbolic engine involved).
python -m harness.replay <file>  -> exit 1 if the violation reproduces, 0 if not, 2 on error."""
import importlib
import json
import sys

FAMILIES = {
    "nt": "harness.nt",
    "ttl": "harness.ttl",
    "guard": "guard2smt.check",
    "stage": "harness.stage_run",
    "strfn": "harness.strfn",
    "step": "harness.step",
    "api": "harness.api",
    "delivery": "harness.delivery",
}


def replay_payload(payload):
    mod = importlib.import_module(FAMILIES[payload["family"]])
    return bool(mod.replay(payload["args"]))


def main(path):
    with open(path) as f:
        data = json.load(f)
    payload = data["replay"] if "replay" in data else data
    try:
        ok = replay_payload(payload)
    except Exception as e:  # noqa
        import traceback
        traceback.print_exc()
        return 2
    if ok:
        print("VIOLATION property=%s replay=%s" % (data.get("property", "?"), path))
        return 1
    print("not reproduced")
    return 0


if __name__ == "__main__":
    sys.exit(main(sys.argv[1]))
