"""SymStr: a str subclass with concrete length and (possibly) symbolic characters.

Every character is either a 1-char python str or a z3 Int expression (a code point).  All index
arithmetic in the code under test is derived from find()/len() results, which are concrete after
forking, so no sequence theory is needed.  Every attribute of `str` that is not modelled here is
overridden by a stub raising HarnessError, so nothing can fall through to the C implementation
(which would read the placeholder buffer).
"""
import z3

from .core import HarnessError, SymBool, cur, fork, Ctx


def Ctx_cur():
    return Ctx.cur

SENTINEL = "\x00⟦SYMSTR⟧\x00"

# ---------------------------------------------------------------------------- exact unicode tables


def _ranges(pred):
    out, s, p = [], None, None
    for c in range(0x110000):
        if 0xD800 <= c <= 0xDFFF:
            continue
        if pred(chr(c)):
            if s is None:
                s = p = c
            elif c == p + 1 or (p == 0xD7FF and c == 0xE000):
                p = c
            else:
                out.append((s, p))
                s = p = c
    if s is not None:
        out.append((s, p))
    return out


_WS_RANGES = _ranges(str.isspace)
_NUM_RANGES = _ranges(str.isnumeric)
_DIGIT_RANGES = _ranges(str.isdigit)
_ALPHA_RANGES = _ranges(str.isalpha)
_ALNUM_RANGES = _ranges(str.isalnum)
_CASED_NONASCII = _ranges(lambda ch: ord(ch) >= 128 and (ch.lower() != ch or ch.upper() != ch))


def in_ranges(c, ranges):
    return z3.Or([c == a if a == b else z3.And(c >= a, c <= b) for a, b in ranges])


def unicode_scalar(c):
    return z3.And(c >= 0, c <= 0x10FFFF, z3.Or(c < 0xD800, c > 0xDFFF))


def _cv(x):
    return ord(x) if isinstance(x, str) else x


def ch_eq(a, b):
    """z3 Bool (or python bool) for equality of two character items."""
    if isinstance(a, str) and isinstance(b, str):
        return a == b
    return _cv(a) == _cv(b)


def _and(conds):
    out = []
    for c in conds:
        if c is True:
            continue
        if c is False:
            return False
        out.append(c)
    if not out:
        return True
    return z3.And(out) if len(out) > 1 else out[0]


def _or(conds):
    out = []
    for c in conds:
        if c is False:
            continue
        if c is True:
            return True
        out.append(c)
    if not out:
        return False
    return z3.Or(out) if len(out) > 1 else out[0]


def as_z3(b):
    return z3.BoolVal(b) if isinstance(b, bool) else b


class SymStr(str):

    def __new__(cls, items):
        o = str.__new__(cls, SENTINEL)
        o.items = tuple(items)
        return o

    # ------------------------------------------------------------------ helpers
    @staticmethod
    def lift(x):
        if isinstance(x, SymStr):
            return x
        if isinstance(x, str):
            return SymStr(tuple(x))
        raise HarnessError("cannot lift %r to SymStr" % (type(x),))

    def concrete(self):
        return all(isinstance(i, str) for i in self.items)

    def plain(self):
        if not self.concrete():
            raise HarnessError("plain() of a symbolic string")
        return "".join(self.items)

    def model_str(self, model):
        out = []
        for it in self.items:
            if isinstance(it, str):
                out.append(it)
            else:
                out.append(chr(model.eval(it, model_completion=True).as_long()))
        return "".join(out)

    def _norm(self):
        """Return a plain str when fully concrete (keeps C-level consumers safe), else self."""
        return "".join(self.items) if self.concrete() else self

    # ------------------------------------------------------------------ expressions (no forking)
    def eq_expr(self, other):
        other = SymStr.lift(other)
        if len(other.items) != len(self.items):
            return False
        return _and([ch_eq(a, b) for a, b in zip(self.items, other.items)])

    def match_at_expr(self, sub, i):
        sub = SymStr.lift(sub)
        if i < 0 or i + len(sub.items) > len(self.items):
            return False
        return _and([ch_eq(a, b) for a, b in zip(self.items[i:i + len(sub.items)], sub.items)])

    def contains_expr(self, sub):
        sub = SymStr.lift(sub)
        return _or([self.match_at_expr(sub, i) for i in range(0, len(self.items) - len(sub.items) + 1)])

    def startswith_expr(self, p):
        return self.match_at_expr(p, 0)

    def endswith_expr(self, p):
        p = SymStr.lift(p)
        return self.match_at_expr(p, len(self.items) - len(p.items))

    # ------------------------------------------------------------------ basic protocol
    def __len__(self):
        return len(self.items)

    def __hash__(self):
        """Dictionary/set keys with symbolic characters: equal strings must hash equally, so the hash of a symbolic
        string is decided by forking on its equality with every string hashed earlier on this path (a registry kept by
        the explorer); a string equal to none of them gets a fresh hash.  Concrete strings hash like `str` so they mix
        with plain keys.  (A *plain* str key that never went through this method is invisible to the registry: harnesses
        keep such dictionaries concrete or lift their keys; the per-path differential guards the rest.)"""
        if self.concrete():
            plain = "".join(self.items)
            h = hash(plain)
            ex = Ctx_cur()
            if ex is not None and plain not in ex.hash_plain:
                ex.hash_plain[plain] = h
                ex.hash_registry.append((self, h))
            return h
        ex = cur()
        for t, h in ex.hash_registry:
            if t is self:
                return h
            if isinstance(t, SymStr) and len(t.items) == len(self.items) and fork(self.eq_expr(t)):
                return h
        ex.hash_counter += 1
        h = 0x5EED0000 + ex.hash_counter
        ex.hash_registry.append((self, h))
        return h

    def __str__(self):
        return self

    def __repr__(self):
        return "SymStr(%r)" % ("".join(i if isinstance(i, str) else "¿" for i in self.items),)

    def __iter__(self):
        for i in self.items:
            yield SymStr((i,))

    def __getitem__(self, k):
        cur().tick()
        if isinstance(k, slice):
            return SymStr(self.items[k])
        if not isinstance(k, int):
            raise HarnessError("SymStr index of type %r" % (type(k),))
        return SymStr((self.items[k],))  # IndexError propagates as for str

    def __add__(self, other):
        if not isinstance(other, str):
            return NotImplemented
        return SymStr(self.items + SymStr.lift(other).items)

    def __radd__(self, other):
        if not isinstance(other, str):
            return NotImplemented
        return SymStr(SymStr.lift(other).items + self.items)

    def __mul__(self, n):
        if not isinstance(n, int):
            raise HarnessError("SymStr * %r" % (type(n),))
        return SymStr(self.items * n)

    __rmul__ = __mul__

    def __eq__(self, other):
        if not isinstance(other, str):
            return NotImplemented
        cur().tick()
        return fork(self.eq_expr(other))

    def __ne__(self, other):
        if not isinstance(other, str):
            return NotImplemented
        return not self.__eq__(other)

    def __contains__(self, sub):
        if not isinstance(sub, str):
            raise TypeError("'in <string>' requires string as left operand")
        # one fork on "occurs somewhere" (not one per candidate position as find() does): the answer is a boolean, the position is irrelevant
        e = self.contains_expr(sub)
        if isinstance(e, bool):
            return e
        cur().tick()
        return fork(e)

    def __bool__(self):
        return len(self.items) > 0

    # ------------------------------------------------------------------ searching
    def _bounds(self, start, end):
        n = len(self.items)
        if start is None:
            start = 0
        if end is None:
            end = n
        if start < 0:
            start = max(0, n + start)
        if end < 0:
            end = max(0, n + end)
        return start, min(end, n)

    def find(self, sub, start=None, end=None):
        sub = SymStr.lift(sub)
        start, end = self._bounds(start, end)
        ex = cur()
        for i in range(start, end - len(sub.items) + 1):
            ex.tick()
            if fork(self.match_at_expr(sub, i)):
                return i
        return -1

    def rfind(self, sub, start=None, end=None):
        sub = SymStr.lift(sub)
        start, end = self._bounds(start, end)
        ex = cur()
        for i in range(end - len(sub.items), start - 1, -1):
            ex.tick()
            if fork(self.match_at_expr(sub, i)):
                return i
        return -1

    def index(self, sub, start=None, end=None):
        r = self.find(sub, start, end)
        if r == -1:
            raise ValueError("substring not found")
        return r

    def rindex(self, sub, start=None, end=None):
        r = self.rfind(sub, start, end)
        if r == -1:
            raise ValueError("substring not found")
        return r

    def count(self, sub, start=None, end=None):
        sub = SymStr.lift(sub)
        start, end = self._bounds(start, end)
        m = len(sub.items)
        if m == 0:
            return end - start + 1
        i, n = start, 0
        while i <= end - m:
            if fork(self.match_at_expr(sub, i)):
                n += 1
                i += m
            else:
                i += 1
        return n

    def startswith(self, p, start=None, end=None):
        if isinstance(p, tuple):
            return any(self.startswith(q, start, end) for q in p)
        s = self if start is None and end is None else self[start:end]
        p = SymStr.lift(p)
        if len(p.items) > len(s.items):
            return False
        return fork(s.match_at_expr(p, 0))

    def endswith(self, p, start=None, end=None):
        if isinstance(p, tuple):
            return any(self.endswith(q, start, end) for q in p)
        s = self if start is None and end is None else self[start:end]
        p = SymStr.lift(p)
        if len(p.items) > len(s.items):
            return False
        return fork(s.match_at_expr(p, len(s.items) - len(p.items)))

    # ------------------------------------------------------------------ character classes
    @staticmethod
    def _item_in(item, ranges, pred):
        if isinstance(item, str):
            return pred(item)
        return fork(in_ranges(item, ranges))

    def isspace(self):
        return len(self.items) > 0 and all(self._item_in(i, _WS_RANGES, str.isspace) for i in self.items)

    def isnumeric(self):
        return len(self.items) > 0 and all(self._item_in(i, _NUM_RANGES, str.isnumeric) for i in self.items)

    def isalpha(self):
        return len(self.items) > 0 and all(self._item_in(i, _ALPHA_RANGES, str.isalpha) for i in self.items)

    def isalnum(self):
        return len(self.items) > 0 and all(self._item_in(i, _ALNUM_RANGES, str.isalnum) for i in self.items)

    def isdigit(self):
        return len(self.items) > 0 and all(self._item_in(i, _DIGIT_RANGES, str.isdigit) for i in self.items)

    def _strip_set(self, chars):
        if chars is None:
            return lambda it: self._item_in(it, _WS_RANGES, str.isspace)
        chars = SymStr.lift(chars)
        return lambda it: fork(_or([ch_eq(it, c) for c in chars.items]))

    def strip(self, chars=None):
        return self.lstrip(chars).rstrip(chars)

    def lstrip(self, chars=None):
        f = self._strip_set(chars)
        a, b = 0, len(self.items)
        while a < b and f(self.items[a]):
            a += 1
        return SymStr(self.items[a:])

    def rstrip(self, chars=None):
        f = self._strip_set(chars)
        b = len(self.items)
        while b > 0 and f(self.items[b - 1]):
            b -= 1
        return SymStr(self.items[:b])

    def _case(self, lower):
        out = []
        for it in self.items:
            if isinstance(it, str):
                r = it.lower() if lower else it.upper()
                out.extend(r)
                continue
            if fork(it < 128):
                if lower:
                    out.append(z3.If(z3.And(it >= 65, it <= 90), it + 32, it))
                else:
                    out.append(z3.If(z3.And(it >= 97, it <= 122), it - 32, it))
            elif fork(in_ranges(it, _CASED_NONASCII)):
                cur().cut("non-ASCII cased letter in str.lower()/upper() (case mapping may change length)")
            else:
                out.append(it)
        return SymStr(out)

    def lower(self):
        return self._case(True)

    def upper(self):
        return self._case(False)

    # ------------------------------------------------------------------ splitting / replacing
    def split(self, sep=None, maxsplit=-1):
        if sep is None:
            out, cur_items = [], []
            for it in self.items:
                if self._item_in(it, _WS_RANGES, str.isspace):
                    if cur_items:
                        out.append(SymStr(cur_items))
                        cur_items = []
                        if maxsplit != -1 and len(out) >= maxsplit:
                            raise HarnessError("split(None, maxsplit) not modelled")
                else:
                    cur_items.append(it)
            if cur_items:
                out.append(SymStr(cur_items))
            return out
        sep = SymStr.lift(sep)
        m = len(sep.items)
        if m == 0:
            raise ValueError("empty separator")
        out, start, i, n = [], 0, 0, len(self.items)
        while i <= n - m:
            if (maxsplit == -1 or len(out) < maxsplit) and fork(self.match_at_expr(sep, i)):
                out.append(SymStr(self.items[start:i]))
                i += m
                start = i
            else:
                i += 1
        out.append(SymStr(self.items[start:]))
        return out

    _LINE_BREAKS = [(0x0A, 0x0D), (0x1C, 0x1E), (0x85, 0x85), (0x2028, 0x2029)]      # \n \v \f \r, FS GS RS, NEL, LS PS

    def splitlines(self, keepends=False):
        out, cur_items, i, n = [], [], 0, len(self.items)
        while i < n:
            it = self.items[i]
            if isinstance(it, str):
                brk = it in "\n\r\x0b\x0c\x1c\x1d\x1e\x85\u2028\u2029"
            else:
                brk = fork(in_ranges(it, SymStr._LINE_BREAKS))
            if not brk:
                cur_items.append(it)
                i += 1
                continue
            end = [it]
            is_cr = (it == "\r") if isinstance(it, str) else fork(it == 13)
            if is_cr and i + 1 < n:
                nxt = self.items[i + 1]
                if (nxt == "\n") if isinstance(nxt, str) else fork(nxt == 10):
                    end.append(nxt)
                    i += 1
            out.append(SymStr(cur_items + (end if keepends else [])))
            cur_items = []
            i += 1
        if cur_items:
            out.append(SymStr(cur_items))
        return out

    def replace(self, old, new, count=-1):
        old, new = SymStr.lift(old), SymStr.lift(new)
        m = len(old.items)
        if m == 0:
            raise HarnessError("replace('') not modelled")
        out, i, n = [], 0, len(self.items)
        while i < n:
            if i <= n - m and count != 0 and fork(self.match_at_expr(old, i)):
                out.extend(new.items)
                i += m
                count -= 1
            else:
                out.append(self.items[i])
                i += 1
        return SymStr(out)

    def join(self, parts):
        out = []
        first = True
        for p in parts:
            if not first:
                out.extend(self.items)
            out.extend(SymStr.lift(p).items)
            first = False
        return SymStr(out)


def _mk_raiser(name):
    def f(self, *a, **k):
        raise HarnessError("SymStr.%s is not modelled" % name)
    f.__name__ = name
    return f


_KEEP = {"__class__", "__new__", "__init__", "__init_subclass__", "__subclasshook__", "__getattribute__",
         "__setattr__", "__delattr__", "__dir__", "__doc__", "__reduce__", "__reduce_ex__", "__sizeof__",
         "__getnewargs__", "__getstate__"}
for _n in dir(str):
    if _n in SymStr.__dict__ or _n in _KEEP:
        continue
    setattr(SymStr, _n, _mk_raiser(_n))
del _n


def sym_chars(ex, name, k, constraint=None):
    """k fresh symbolic characters (z3 Ints) constrained to unicode scalars and `constraint(c)`."""
    out = []
    for i in range(k):
        c = ex.fresh_int("%s_%d" % (name, i))
        ex.add(unicode_scalar(c))
        if constraint is not None:
            ex.add(constraint(c))
        out.append(c)
    return out


def concretize(x, model):
    """Deep-convert a value that may contain SymStr into plain python under `model`."""
    if isinstance(x, SymStr):
        return x.model_str(model)
    if isinstance(x, (list, tuple)):
        return type(x)(concretize(i, model) for i in x)
    if isinstance(x, dict):
        return {concretize(k, model): concretize(v, model) for k, v in x.items()}
    return x


def leak_scan(x, depth=0):
    """True if the sentinel buffer of a SymStr leaked into a plain string somewhere in x."""
    if isinstance(x, SymStr):
        return False
    if isinstance(x, str):
        return SENTINEL in x or "SYMSTR" in x
    if depth > 6:
        return False
    if isinstance(x, (list, tuple, set)):
        return any(leak_scan(i, depth + 1) for i in x)
    if isinstance(x, dict):
        return any(leak_scan(k, depth + 1) or leak_scan(v, depth + 1) for k, v in x.items())
    if hasattr(x, "__dict__") and not isinstance(x, type):
        return any(leak_scan(v, depth + 1) for v in vars(x).values())
    return False


# ---------------------------------------------------------------------------- regex shim


class _Match:
    def __init__(self, s, e, string):
        self._s, self._e, self.string = s, e, string

    def start(self, g=0):
        return self._s

    def end(self, g=0):
        return self._e

    def span(self, g=0):
        return (self._s, self._e)

    def group(self, g=0):
        return self.string[self._s:self._e]


def _parse_simple_pattern(pat):
    """Parse a regex made of literal characters and character classes, each optionally followed by
    '+' or '?'.  Returns [(negated, chars, quant)] or raises HarnessError."""
    seq, i = [], 0
    while i < len(pat):
        ch = pat[i]
        if ch == "[":
            j = i + 1
            neg = False
            if pat[j] == "^":
                neg = True
                j += 1
            chars = []
            first = True
            while pat[j] != "]" or first:
                first = False
                if pat[j] == "\\":
                    j += 1
                    esc = pat[j]
                    chars.append({"n": "\n", "r": "\r", "t": "\t"}.get(esc, esc))
                elif pat[j + 1] == "-" and pat[j + 2] != "]":
                    chars.extend(chr(c) for c in range(ord(pat[j]), ord(pat[j + 2]) + 1))
                    j += 2
                else:
                    chars.append(pat[j])
                j += 1
            seq.append([neg, "".join(chars), ""])
            i = j + 1
        elif ch == "\\":
            esc = pat[i + 1]
            if esc.isalnum() and esc not in "nrt":
                raise HarnessError("regex escape \\%s outside the modelled fragment" % esc)
            seq.append([False, {"n": "\n", "r": "\r", "t": "\t"}.get(esc, esc), ""])
            i += 2
        elif ch in "+?":
            if not seq or seq[-1][2]:
                raise HarnessError("regex quantifier outside the modelled fragment: %r" % pat)
            seq[-1][2] = ch
            i += 1
        elif ch in ".*(){}|^$":
            raise HarnessError("regex %r outside the modelled fragment" % pat)
        else:
            seq.append([False, ch, ""])
            i += 1
    return [tuple(x) for x in seq]


class RegexShim:
    """Drop-in for a compiled pattern of the simple fragment; delegates to the original on plain str."""

    def __init__(self, orig):
        self.orig = orig
        self.pattern = orig.pattern
        self.seq = _parse_simple_pattern(orig.pattern)

    @staticmethod
    def _cls(item, neg, chars):
        if isinstance(item, str):
            r = item in chars
            return (not r) if neg else r
        e = _or([item == ord(c) for c in chars])
        e = as_z3(e)
        return fork(z3.Not(e) if neg else e)

    def _match_at(self, items, i):
        """greedy, no backtracking needed for the fragment when quantified classes are last or
        followed by a disjoint class; we check that statically in __init__ users (see selftest)."""
        j = i
        for neg, chars, q in self.seq:
            if q == "":
                if j >= len(items) or not self._cls(items[j], neg, chars):
                    return None
                j += 1
            elif q == "?":
                if j < len(items) and self._cls(items[j], neg, chars):
                    j += 1
            else:  # '+'
                if j >= len(items) or not self._cls(items[j], neg, chars):
                    return None
                j += 1
                while j < len(items) and self._cls(items[j], neg, chars):
                    j += 1
        return j

    def _sym(self, s):
        return isinstance(s, SymStr) and not s.concrete()

    def match(self, s):
        if not self._sym(s):
            return self.orig.match(s if not isinstance(s, SymStr) else s.plain())
        j = self._match_at(s.items, 0)
        return None if j is None else _Match(0, j, s)

    def search(self, s):
        if not self._sym(s):
            return self.orig.search(s if not isinstance(s, SymStr) else s.plain())
        for i in range(len(s.items) + 1):
            j = self._match_at(s.items, i)
            if j is not None:
                return _Match(i, j, s)
        return None

    def finditer(self, s):
        if not self._sym(s):
            for m in self.orig.finditer(s if not isinstance(s, SymStr) else s.plain()):
                yield m
            return
        i = 0
        while i <= len(s.items):
            j = self._match_at(s.items, i)
            if j is None:
                i += 1
            else:
                yield _Match(i, j, s)
                i = j if j > i else i + 1

    def sub(self, repl, s):
        if not self._sym(s):
            return self.orig.sub(repl, s if not isinstance(s, SymStr) else s.plain())
        if not isinstance(repl, str) or "\\" in repl:
            raise HarnessError("regex sub replacement outside the modelled fragment")
        out, i = [], 0
        while i < len(s.items):
            j = self._match_at(s.items, i)
            if j is None or j == i:
                out.append(s.items[i])
                i += 1
            else:
                out.extend(repl)
                i = j
        return SymStr(out)
