"""Symbolic numbers.

SymInt   - z3 Int expression with a tracked finite interval (counters, cardinalities, caps).
SymReal  - z3 Real expression (the acceptance threshold: "an arbitrary double with this exact value").
SymFloat - *bit-exact* derived number: (deps, fn) where deps are SymInt expressions with finite ranges
           and fn maps concrete dependency values to the concrete python number the real code would
           compute (with the machine's own float arithmetic).  Comparisons are materialised as tables
           over the dependency values; no "floats as reals" approximation.
Formatting (`str`, `format`) yields an opaque token registered with the explorer.
"""
import builtins
import itertools
from fractions import Fraction

import z3

from .core import HarnessError, cur, fork

TOKEN_L, TOKEN_R = "⟦", "⟧"
MAX_TABLE = 200000


def _token(value, spec, how):
    ex = cur()
    ex.tokens.append((value, spec, how))
    return "%s%d%s" % (TOKEN_L, len(ex.tokens) - 1, TOKEN_R)


def q(x):
    """Exact z3 Real value of a python number (doubles are dyadic rationals)."""
    if isinstance(x, bool):
        raise HarnessError("bool used as number")
    if isinstance(x, int):
        return z3.RealVal(x)
    fr = Fraction(x)
    return z3.RealVal("%d/%d" % (fr.numerator, fr.denominator))


class SymInt:
    __slots__ = ("e", "lo", "hi")

    def __init__(self, e, lo=None, hi=None):
        self.e, self.lo, self.hi = e, lo, hi

    @staticmethod
    def _lift(o):
        if isinstance(o, SymInt):
            return o
        if isinstance(o, bool):
            return None
        if isinstance(o, int):
            return SymInt(z3.IntVal(o), o, o)
        return None

    def _rng(self, o, f):
        if None in (self.lo, self.hi, o.lo, o.hi):
            return None, None
        c = [f(a, b) for a in (self.lo, self.hi) for b in (o.lo, o.hi)]
        return min(c), max(c)

    def __add__(self, o):
        if isinstance(o, (SymFloat, float)):
            return SymFloat.lift(self).__add__(o)
        o = SymInt._lift(o)
        if o is None:
            return NotImplemented
        lo, hi = self._rng(o, lambda a, b: a + b)
        return SymInt(self.e + o.e, lo, hi)

    __radd__ = __add__

    def __sub__(self, o):
        if isinstance(o, (SymFloat, float)):
            return SymFloat.lift(self).__sub__(o)
        o = SymInt._lift(o)
        if o is None:
            return NotImplemented
        lo, hi = self._rng(o, lambda a, b: a - b)
        return SymInt(self.e - o.e, lo, hi)

    def __rsub__(self, o):
        o = SymInt._lift(o)
        if o is None:
            return NotImplemented
        return o.__sub__(self)

    def __mul__(self, o):
        if isinstance(o, (SymFloat, float)):
            return SymFloat.lift(self).__mul__(o)
        if isinstance(o, SymInt):
            raise HarnessError("non-linear SymInt * SymInt")
        o = SymInt._lift(o)
        if o is None:
            return NotImplemented
        lo, hi = self._rng(o, lambda a, b: a * b)
        return SymInt(self.e * o.e, lo, hi)

    __rmul__ = __mul__

    def __truediv__(self, o):
        return SymFloat.lift(self).__truediv__(o)

    def __rtruediv__(self, o):
        return SymFloat.lift(o).__truediv__(self)

    def __neg__(self):
        return SymInt(-self.e, None if self.hi is None else -self.hi, None if self.lo is None else -self.lo)

    def __abs__(self):
        return SymInt(z3.If(self.e >= 0, self.e, -self.e), 0,
                      None if None in (self.lo, self.hi) else max(abs(self.lo), abs(self.hi)))

    def _cmp(self, o, f):
        if isinstance(o, (SymFloat, float)):
            return SymFloat.lift(self)._cmp(o, f, f)
        if isinstance(o, SymReal):
            return fork(f(z3.ToReal(self.e), o.e))
        o = SymInt._lift(o)
        if o is None:
            return NotImplemented
        return fork(f(self.e, o.e))

    def __lt__(self, o):
        return self._cmp(o, lambda a, b: a < b)

    def __le__(self, o):
        return self._cmp(o, lambda a, b: a <= b)

    def __gt__(self, o):
        return self._cmp(o, lambda a, b: a > b)

    def __ge__(self, o):
        return self._cmp(o, lambda a, b: a >= b)

    def __eq__(self, o):
        return self._cmp(o, lambda a, b: a == b)

    def __ne__(self, o):
        r = self._cmp(o, lambda a, b: a != b)
        return r

    def __bool__(self):
        return fork(self.e != 0)

    def __hash__(self):
        """Dictionary keys: like SymStr, the hash of a symbolic integer is decided by forking on its equality with the integers
        hashed earlier on this path; an integer with a single possible value hashes like the plain int."""
        ex = cur()
        if self.lo is not None and self.lo == self.hi:
            h = hash(self.lo)
            if ("int", self.lo) not in ex.hash_plain:
                ex.hash_plain[("int", self.lo)] = h
                ex.hash_registry.append((self, h))
            return h
        for t, h in ex.hash_registry:
            if t is self:
                return h
            if isinstance(t, SymInt) and fork(self.e == t.e):
                return h
        ex.hash_counter += 1
        h = 0x1EED0000 + ex.hash_counter
        ex.hash_registry.append((self, h))
        return h

    def __index__(self):
        raise HarnessError("symbolic integer used as an index / range bound")

    def __int__(self):
        raise HarnessError("int() of a symbolic integer through the builtin (module not shimmed)")

    def __float__(self):
        raise HarnessError("float() of a symbolic integer through the builtin (module not shimmed)")

    def __format__(self, spec):
        return _token(self, spec, "format")

    def __str__(self):
        return _token(self, "", "str")

    __repr__ = __str__

    def value(self, model):
        return model.eval(self.e, model_completion=True).as_long()


class SymReal:
    """The acceptance threshold.  Only comparisons are supported (that is all the code does with it)."""
    __slots__ = ("e",)

    def __init__(self, e):
        self.e = e

    def _cmp(self, o, f):
        if isinstance(o, SymFloat):
            return NotImplemented  # SymFloat's reflected comparison handles it
        if isinstance(o, SymReal):
            return fork(f(self.e, o.e))
        if isinstance(o, SymInt):
            return fork(f(self.e, z3.ToReal(o.e)))
        if isinstance(o, (int, float)) and not isinstance(o, bool):
            return fork(f(self.e, q(o)))
        return NotImplemented

    def __lt__(self, o):
        return self._cmp(o, lambda a, b: a < b)

    def __le__(self, o):
        return self._cmp(o, lambda a, b: a <= b)

    def __gt__(self, o):
        return self._cmp(o, lambda a, b: a > b)

    def __ge__(self, o):
        return self._cmp(o, lambda a, b: a >= b)

    def __eq__(self, o):
        return self._cmp(o, lambda a, b: a == b)

    def __ne__(self, o):
        return self._cmp(o, lambda a, b: a != b)

    def __hash__(self):
        raise HarnessError("hash of symbolic real")

    def __float__(self):
        raise HarnessError("float() of the symbolic threshold")

    def __format__(self, spec):
        return _token(self, spec, "format")

    def __str__(self):
        return _token(self, "", "str")

    def value(self, model):
        v = model.eval(self.e, model_completion=True)
        return Fraction(v.numerator_as_long(), v.denominator_as_long())


class Dep:
    __slots__ = ("e", "lo", "hi", "key")

    def __init__(self, e, lo, hi):
        self.e, self.lo, self.hi = e, lo, hi
        self.key = e.sexpr()


class SymFloat:
    """Derived number with exact machine semantics; see module docstring."""
    __slots__ = ("deps", "fn")

    def __init__(self, deps, fn):
        self.deps, self.fn = tuple(deps), fn

    @staticmethod
    def lift(o):
        if isinstance(o, SymFloat):
            return o
        if isinstance(o, SymInt):
            if o.lo is None or o.hi is None:
                raise HarnessError("SymInt without a finite range used in float arithmetic")
            if o.lo == o.hi:
                v = o.lo
                return SymFloat((), lambda vals: v)
            return SymFloat((Dep(o.e, o.lo, o.hi),), lambda vals: vals[0])
        if isinstance(o, bool):
            raise HarnessError("bool used as number")
        if isinstance(o, (int, float)):
            return SymFloat((), lambda vals: o)
        return None

    def map(self, f):
        fn = self.fn
        return SymFloat(self.deps, lambda vals: f(fn(vals)))

    def _merge(self, o):
        deps = list(self.deps)
        idx = {d.key: i for i, d in enumerate(deps)}
        pos = []
        for d in o.deps:
            if d.key not in idx:
                idx[d.key] = len(deps)
                deps.append(d)
            pos.append(idx[d.key])
        n1 = len(self.deps)
        return deps, (lambda vals: vals[:n1]), (lambda vals: tuple(vals[p] for p in pos))

    def _bin(self, o, op):
        o = SymFloat.lift(o)
        if o is None:
            return NotImplemented
        deps, p1, p2 = self._merge(o)
        f1, f2 = self.fn, o.fn
        return SymFloat(deps, lambda vals: op(f1(p1(vals)), f2(p2(vals))))

    def __add__(self, o):
        return self._bin(o, lambda a, b: a + b)

    def __radd__(self, o):
        return self._bin(o, lambda a, b: b + a)

    def __sub__(self, o):
        return self._bin(o, lambda a, b: a - b)

    def __rsub__(self, o):
        return self._bin(o, lambda a, b: b - a)

    def __mul__(self, o):
        return self._bin(o, lambda a, b: a * b)

    def __rmul__(self, o):
        return self._bin(o, lambda a, b: b * a)

    def __truediv__(self, o):
        return self._bin(o, lambda a, b: a / b)

    def __rtruediv__(self, o):
        return self._bin(o, lambda a, b: b / a)

    def __mod__(self, o):
        return self._bin(o, lambda a, b: a % b)

    def __abs__(self):
        return self.map(abs)

    def __round__(self, ndigits=None):
        if ndigits is not None and not isinstance(ndigits, int):
            raise HarnessError("round() with a symbolic number of digits")
        return self.map(lambda a: round(a, ndigits))

    def __neg__(self):
        return self.map(lambda a: -a)

    # ---- comparisons -------------------------------------------------------------------------
    _CACHE = {}

    @staticmethod
    def _assignments(deps):
        size = 1
        for d in deps:
            size *= (d.hi - d.lo + 1)
        if size > MAX_TABLE:
            raise HarnessError("SymFloat comparison table too large (%d)" % size)
        return size, itertools.product(*[range(d.lo, d.hi + 1) for d in deps])

    def _table(self, deps, pred, cache_key=None):
        """z3 Bool: disjunction over the dependency assignments satisfying pred(vals) -> bool | z3 Bool."""
        if not deps:
            r = pred(())
            return z3.BoolVal(r) if isinstance(r, bool) else r
        size, it = SymFloat._assignments(deps)
        cur().tick(max(1, size // 8))
        results, errs = [], []
        for vals in it:
            try:
                results.append((vals, pred(vals)))
            except ZeroDivisionError:
                errs.append(vals)
        if errs:
            bad = z3.Or([z3.And([d.e == v for d, v in zip(deps, vals)]) for vals in errs])
            if cur().sat(bad):
                raise ZeroDivisionError("float division by zero (symbolic)")
        key = None
        if cache_key is not None and all(isinstance(r, bool) for _, r in results):
            key = (cache_key, tuple(d.key for d in deps), tuple(d.lo for d in deps), tuple(r for _, r in results))
            hit = SymFloat._CACHE.get(key)
            if hit is not None:
                return hit
        n_true = sum(1 for _, r in results if r is True)
        n_false = sum(1 for _, r in results if r is False)
        if n_true + n_false == len(results) and n_false < n_true:
            # complement form is smaller
            cases = [self._guard(deps, vals) for vals, r in results if r is False]
            expr = z3.Not(z3.Or(cases)) if cases else z3.BoolVal(True)
            # assignments outside the declared ranges are excluded by the range constraints of the variables
        else:
            cases = []
            for vals, r in results:
                if r is False:
                    continue
                g = self._guard(deps, vals)
                cases.append(g if r is True else z3.And(g, r))
            expr = z3.Or(cases) if cases else z3.BoolVal(False)
        if key is not None:
            SymFloat._CACHE[key] = expr
        return expr

    @staticmethod
    def _guard(deps, vals):
        if len(deps) == 1:
            return deps[0].e == vals[0]
        return z3.And([d.e == v for d, v in zip(deps, vals)])

    def _cmp(self, o, op, zop, name="?"):
        if isinstance(o, SymReal):
            fn = self.fn
            tkey = str(o.e)
            size, it = SymFloat._assignments(self.deps) if self.deps else (1, [()])
            fvals = []
            for vals in it:
                try:
                    fvals.append(fn(vals))
                except ZeroDivisionError:
                    fvals.append(None)
            key = ("R", name, tkey, tuple(d.key for d in self.deps), tuple(d.lo for d in self.deps), tuple(fvals))
            expr = SymFloat._CACHE.get(key)
            if expr is None:
                expr = self._table(self.deps, lambda vals: zop(q(fn(vals)), o.e))
                SymFloat._CACHE[key] = expr
            return fork(expr)
        o2 = SymFloat.lift(o)
        if o2 is None:
            return NotImplemented
        deps, p1, p2 = self._merge(o2)
        f1, f2 = self.fn, o2.fn
        return fork(self._table(deps, lambda vals: bool(op(f1(p1(vals)), f2(p2(vals)))), cache_key="B"))

    def __lt__(self, o):
        return self._cmp(o, lambda a, b: a < b, lambda a, b: a < b, '<')

    def __le__(self, o):
        return self._cmp(o, lambda a, b: a <= b, lambda a, b: a <= b, '<=')

    def __gt__(self, o):
        return self._cmp(o, lambda a, b: a > b, lambda a, b: a > b, '>')

    def __ge__(self, o):
        return self._cmp(o, lambda a, b: a >= b, lambda a, b: a >= b, '>=')

    def __eq__(self, o):
        return self._cmp(o, lambda a, b: a == b, lambda a, b: a == b, '==')

    def __ne__(self, o):
        return self._cmp(o, lambda a, b: a != b, lambda a, b: a != b, '!=')

    def __bool__(self):
        return self.__ne__(0)

    def __hash__(self):
        raise HarnessError("hash of a symbolic float")

    def __index__(self):
        raise HarnessError("symbolic number used as an index")

    def __float__(self):
        raise HarnessError("float() of a symbolic number through the builtin (module not shimmed)")

    def __int__(self):
        raise HarnessError("int() of a symbolic number through the builtin (module not shimmed)")

    def __format__(self, spec):
        return _token(self, spec, "format")

    def __str__(self):
        return _token(self, "", "str")

    __repr__ = __str__

    def value(self, model):
        vals = tuple(model.eval(d.e, model_completion=True).as_long() for d in self.deps)
        return self.fn(vals)

    def eq_expr(self, other_fn_or_value):
        """z3 Bool: this number equals `other` (a python number or a function of the same dep values)."""
        fn = self.fn
        if callable(other_fn_or_value):
            return self._table(self.deps, lambda vals: fn(vals) == other_fn_or_value(vals))
        return self._table(self.deps, lambda vals: fn(vals) == other_fn_or_value)


def sym_float(x=0.0):
    if isinstance(x, SymInt):
        return SymFloat.lift(x).map(builtins.float)
    if isinstance(x, SymFloat):
        return x.map(builtins.float)
    if isinstance(x, SymReal):
        return x
    return builtins.float(x)


def sym_int(x=0, *a):
    if isinstance(x, SymInt):
        return x
    if isinstance(x, SymFloat):
        return x.map(builtins.int)
    return builtins.int(x, *a)


def render_token(entry, model):
    value, spec, how = entry
    v = value.value(model)
    if isinstance(v, Fraction):
        v = builtins.float(v)
    if how == "str":
        return builtins.str(v)
    return builtins.format(v, spec)


def instantiate(text, tokens, model):
    """Replace every token in `text` by what the real formatter prints under `model`."""
    out, i = [], 0
    while True:
        j = text.find(TOKEN_L, i)
        if j == -1:
            out.append(text[i:])
            break
        k = text.find(TOKEN_R, j)
        out.append(text[i:j])
        out.append(render_token(tokens[builtins.int(text[j + 1:k])], model))
        i = k + 1
    return "".join(out)
