"""Source-level instrumentation of the code under test, applied at import time to every `shexer.*` module.

CPython offers no hook for `x in "plain string"` or `"sep".join(parts)` when the *left/inner* operand is a proxy: the C
implementation of the plain `str` reads the proxy's buffer.  The import hook below re-compiles each module of the package
from its *current source* with two rewrites that are the identity on ordinary values:

    a in b        ->  __symx_in__(a, b)            a not in b  ->  not __symx_in__(a, b)
    s.join(xs)    ->  __symx_join__(s, xs)         (only for the method name `join` with one positional argument)
    ord(x)        ->  __symx_ord__(x)              chr(x)      ->  __symx_chr__(x)      (a symbolic character <-> its symbolic code point)

Nothing else is touched; line numbers are preserved.  Counterexample replays (`python -m harness.replay`) run in a fresh
interpreter *without* this hook, i.e. on the pristine code.
"""
import ast
import builtins
import importlib.abc
import importlib.machinery
import sys

PACKAGE = "shexer"
_INSTALLED = [False]


def _symx_in(a, b):
    from .symstr import SymStr
    if isinstance(a, SymStr) and isinstance(b, str) and not isinstance(b, SymStr) and not a.concrete():
        return SymStr.lift(b).__contains__(a)
    if isinstance(a, SymStr) and isinstance(b, str) and not isinstance(b, SymStr):
        return a.plain() in b
    return a in b


def _symx_join(sep, parts):
    from .symstr import SymStr
    if isinstance(sep, str):
        parts = list(parts)
        if isinstance(sep, SymStr) or any(isinstance(p, SymStr) for p in parts):
            r = SymStr.lift(sep).join(parts)
            return r.plain() if r.concrete() else r
        return sep.join(parts)
    return sep.join(parts)


def _symx_ord(x):
    from .symstr import SymStr
    from .symnum import SymInt
    if isinstance(x, SymStr) and not x.concrete():
        if len(x.items) != 1:
            raise TypeError("ord() expected a character, but string of length %d found" % len(x.items))
        return SymInt(x.items[0], 0, 0x10FFFF)
    return ord(x.plain() if isinstance(x, SymStr) else x)


def _symx_chr(x):
    from .symstr import SymStr
    from .symnum import SymInt
    if isinstance(x, SymInt):
        if x.lo is not None and x.lo == x.hi:
            return chr(x.lo)
        return SymStr([x.e])
    return chr(x)


class _Rewrite(ast.NodeTransformer):
    def visit_Compare(self, node):
        self.generic_visit(node)
        if len(node.ops) == 1 and isinstance(node.ops[0], (ast.In, ast.NotIn)):
            call = ast.Call(func=ast.Name(id="__symx_in__", ctx=ast.Load()), args=[node.left, node.comparators[0]], keywords=[])
            new = call if isinstance(node.ops[0], ast.In) else ast.UnaryOp(op=ast.Not(), operand=call)
            return ast.copy_location(new, node)
        return node

    def visit_Call(self, node):
        self.generic_visit(node)
        f = node.func
        if isinstance(f, ast.Name) and f.id in ("ord", "chr") and len(node.args) == 1 and not node.keywords and not isinstance(node.args[0], ast.Starred):
            new = ast.Call(func=ast.Name(id="__symx_%s__" % f.id, ctx=ast.Load()), args=node.args, keywords=[])
            return ast.copy_location(new, node)
        if isinstance(f, ast.Attribute) and f.attr == "join" and len(node.args) == 1 and not node.keywords and not isinstance(node.args[0], ast.Starred):
            new = ast.Call(func=ast.Name(id="__symx_join__", ctx=ast.Load()), args=[f.value, node.args[0]], keywords=[])
            return ast.copy_location(new, node)
        return node


POST_IMPORT_HOOKS = []       # callables(module) run right after a shexer.* module has been executed (the harness wraps regexes there)


class _Loader(importlib.machinery.SourceFileLoader):
    def exec_module(self, module):
        super().exec_module(module)
        for hook in POST_IMPORT_HOOKS:
            hook(module)

    def get_code(self, fullname):      # never use or write .pyc files: always the current source
        path = self.get_filename(fullname)
        return self.source_to_code(self.get_data(path), path)

    def source_to_code(self, data, path, *, _optimize=-1):
        tree = ast.parse(data, filename=path)
        tree = _Rewrite().visit(tree)
        ast.fix_missing_locations(tree)
        return compile(tree, path, "exec", dont_inherit=True, optimize=_optimize)


class _Finder(importlib.abc.MetaPathFinder):
    def find_spec(self, name, path=None, target=None):
        if name != PACKAGE and not name.startswith(PACKAGE + "."):
            return None
        spec = importlib.machinery.PathFinder.find_spec(name, path, target)
        if spec is not None and isinstance(spec.loader, importlib.machinery.SourceFileLoader):
            spec.loader = _Loader(spec.loader.name, spec.loader.path)
        return spec


def install():
    if _INSTALLED[0]:
        return
    already = [m for m in sys.modules if m == PACKAGE or m.startswith(PACKAGE + ".")]
    if already:
        raise RuntimeError("symx.instrument.install() must run before the first import of %s (already imported: %s)" % (PACKAGE, already[:3]))
    builtins.__symx_in__ = _symx_in
    builtins.__symx_join__ = _symx_join
    builtins.__symx_ord__ = _symx_ord
    builtins.__symx_chr__ = _symx_chr
    sys.meta_path.insert(0, _Finder())
    _INSTALLED[0] = True
