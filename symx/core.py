"""symx core: path-forking symbolic execution of real Python code.

The code under test runs on ordinary CPython with *proxy* values.  Whenever Python needs a concrete
bool from a proxy, the proxy calls Explorer.branch(expr): z3 decides which sides are feasible under
the current path condition, one side is followed, the other is queued.  The harness function is
re-executed from scratch for every decision prefix (stateless replay; code under test is
deterministic).  See DESIGN.md section 3 and Appendix A.
"""
import signal
import time

import z3


class Infeasible(BaseException):
    """The path condition became unsatisfiable (an assume() contradicted it)."""


class Cut(BaseException):
    """The harness deliberately abandons this path; `reason` is reported as outside the claim."""

    def __init__(self, reason):
        BaseException.__init__(self, reason)
        self.reason = reason


class Hang(BaseException):
    """Raised when the per-path operation / wall budget is exceeded (non-termination candidate)."""


class HarnessError(Exception):
    """The engine cannot model something faithfully.  Never turned into a pass (exit code 2)."""


class Inconclusive(Exception):
    """Budget exhausted / solver unknown.  Never turned into a pass (exit code 2)."""


class Ctx:
    cur = None  # the Explorer running in this process (one at a time)


def cur():
    ex = Ctx.cur
    if ex is None:
        raise HarnessError("symbolic value used outside an exploration")
    return ex


_HANG_ARMED = [False]


_ALARMS = [0]


def _on_alarm(signum, frame):
    # Raising from a signal handler can land inside a ctypes callback of z3 (-> ctypes.ArgumentError) or in a
    # __del__; so the handler only sets a flag which tick() turns into Hang.  If no proxy operation happens for
    # a further 3 s (a loop on purely concrete data), raise from here as a last resort.
    if _HANG_ARMED[0]:
        _ALARMS[0] += 1
        ex = Ctx.cur
        if ex is not None:
            ex.hang_flag = True
        if _ALARMS[0] > 60:
            raise Hang()


class Explorer:
    def __init__(self, max_paths=200000, path_ops=3000, path_wall_s=10.0, solver_timeout_ms=20000):
        self.solver = z3.Solver()
        self.solver.set("timeout", solver_timeout_ms)
        self.max_paths = max_paths
        self.path_ops = path_ops
        self.path_wall_s = path_wall_s
        self.stats = dict(paths=0, infeasible=0, cuts={}, hangs=0, solver_calls=0, solver_s=0.0,
                          decisions=0, forks=0, replays=0)
        self.errors = []          # flagged by shims even if the code under test swallows the exception
        self.tokens = []
        self.vars = {}
        self.ops = 0
        self.hang_flag = False
        self.hash_registry, self.hash_plain, self.hash_counter = [], {}, 0

    # ------------------------------------------------------------------ solver access
    def check(self, *extra):
        t = time.time()
        r = self.solver.check(*extra)
        self.stats['solver_calls'] += 1
        self.stats['solver_s'] += time.time() - t
        if r == z3.unknown:
            raise Inconclusive("solver returned unknown: %s" % self.solver.reason_unknown())
        return r

    def sat(self, *extra):
        return self.check(*extra) == z3.sat

    def model(self, *extra):
        if self.check(*extra) != z3.sat:
            return None
        return self.solver.model()

    # ------------------------------------------------------------------ declarations
    def add(self, *exprs):
        self.solver.add(*exprs)

    def fresh_int(self, name, lo=None, hi=None):
        v = z3.Int(name)
        if lo is not None:
            self.solver.add(v >= lo)
        if hi is not None:
            self.solver.add(v <= hi)
        self.vars[name] = v
        return v

    def fresh_bool(self, name):
        v = z3.Bool(name)
        self.vars[name] = v
        return v

    def fresh_real(self, name, lo=None, hi=None):
        v = z3.Real(name)
        if lo is not None:
            self.solver.add(v >= lo)
        if hi is not None:
            self.solver.add(v <= hi)
        self.vars[name] = v
        return v

    def assume(self, expr):
        self.solver.add(expr)
        if self.check() != z3.sat:
            raise Infeasible()

    def cut(self, reason):
        raise Cut(reason)

    def flag_error(self, msg):
        self.errors.append(msg)

    def tick(self, n=1):
        self.ops += n
        if self.ops > self.path_ops or self.hang_flag:
            raise Hang()

    # ------------------------------------------------------------------ exploration
    def explore(self, fn, on_path):
        """fn(ex) runs the harness once under the current decision prefix and returns a result;
        on_path(result, ex) judges it while the path condition is still asserted."""
        stack = [([], [])]
        old_handler = signal.signal(signal.SIGALRM, _on_alarm)
        try:
            while stack:
                if self.stats['paths'] + self.stats['infeasible'] >= self.max_paths:
                    raise Inconclusive("path budget %d exhausted" % self.max_paths)
                prefix, hashes = stack.pop()
                self._prefix, self._hashes = list(prefix), list(hashes)
                self._pos = 0
                self._pending = []
                self.tokens = []
                self.vars = {}
                self.errors = []
                self.ops = 0
                self.hash_registry, self.hash_plain, self.hash_counter = [], {}, 0
                self.hang_flag = False
                _ALARMS[0] = 0
                self.solver.push()
                Ctx.cur = self
                _HANG_ARMED[0] = True
                signal.setitimer(signal.ITIMER_REAL, self.path_wall_s, 0.05)
                try:
                    try:
                        res = fn(self)
                    finally:
                        _HANG_ARMED[0] = False
                        signal.setitimer(signal.ITIMER_REAL, 0)
                    if self.errors:
                        raise HarnessError("; ".join(self.errors[:3]))
                    self.stats['paths'] += 1
                    self.stats['max_ops'] = max(self.stats.get('max_ops', 0), self.ops)
                    on_path(res, self)
                except Infeasible:
                    self.stats['infeasible'] += 1
                except Cut as c:
                    self.stats['cuts'][c.reason] = self.stats['cuts'].get(c.reason, 0) + 1
                finally:
                    _HANG_ARMED[0] = False
                    signal.setitimer(signal.ITIMER_REAL, 0)
                    self.solver.pop()
                    Ctx.cur = None
                stack.extend(self._pending)
        finally:
            signal.signal(signal.SIGALRM, old_handler)

    def branch(self, expr):
        """Concrete bool for a z3 Bool, forking when both sides are feasible."""
        self.tick()
        raw = expr
        expr = z3.simplify(expr)
        if z3.is_true(expr):
            return True
        if z3.is_false(expr):
            return False
        h = _sig(raw, 2)  # signature of the un-simplified term: the simplifier orders AC arguments by AST id
        if self._pos < len(self._prefix):
            d = self._prefix[self._pos]
            if self._hashes[self._pos] != h:
                raise HarnessError("non-deterministic replay: branch %d differs from the recorded one" % self._pos)
            self.stats['replays'] += 1
        else:
            # branch() may be reached inside code that swallows BaseException; keep the hang guard quiet here
            armed = _HANG_ARMED[0]
            _HANG_ARMED[0] = False
            try:
                can_t = self.check(expr) == z3.sat
                can_f = self.check(z3.Not(expr)) == z3.sat
            finally:
                _HANG_ARMED[0] = armed
            if can_t and can_f:
                self._pending.append((self._prefix + [False], self._hashes + [h]))
                self.stats['forks'] += 1
                d = True
            elif can_t:
                d = True
            elif can_f:
                d = False
            else:
                raise Infeasible()
            self._prefix.append(d)
            self._hashes.append(h)
            self.stats['decisions'] += 1
        self._pos += 1
        self.solver.add(expr if d else z3.Not(expr))
        return d

    def path_condition(self):
        return z3.And(list(self.solver.assertions()) + [z3.BoolVal(True)])


def _sig(e, depth):
    """Cheap structural signature of a z3 expression (used to detect non-deterministic replays)."""
    if z3.is_int_value(e):
        return e.as_long()
    d = e.decl()
    n = e.num_args()
    if n == 0 or depth == 0:
        return (d.name(), n)
    if n > 3:
        return (d.name(), n, _sig(e.arg(0), 0))
    return (d.name(), n) + tuple(_sig(e.arg(i), depth - 1) for i in range(n))


class SymBool:
    __slots__ = ("e",)

    def __init__(self, e):
        self.e = e

    def __bool__(self):
        return cur().branch(self.e)


def fork(expr):
    """bool(SymBool(expr)) for z3 Bool `expr`; python bools pass through."""
    if isinstance(expr, bool):
        return expr
    return cur().branch(expr)
