"""Symbolic regular expressions: Python's `re` semantics on strings with symbolic characters.

The pattern is parsed by CPython's own parser (`re._parser`), so the accepted syntax is exactly Python's; matching is a backtracking
matcher that tries alternatives in the same order as sre (greedy / lazy repeats, leftmost alternative first), which gives the same
match *positions* and groups as `re`.  Every test of a symbolic character is a `fork` of the explorer: on each path the matcher
behaves like a concrete one.  Strings have concrete length (SymStr), hence every loop is bounded.

Not modelled (HarnessError when they would matter on a symbolic string): IGNORECASE / LOCALE / ASCII flags, look-behind,
back-references, conditional groups, possessive repeats and atomic groups.  On plain `str` arguments everything delegates to `re`.
"""
import re
import sys

import z3

try:
    import re._parser as _sre_parse
    import re._constants as _C
except ImportError:  # pragma: no cover  (python < 3.11)
    import sre_parse as _sre_parse
    import sre_constants as _C

from .core import HarnessError, fork
from .symstr import SymStr, in_ranges, as_z3, _or

_RANGES = {}


def _ranges_where(name, pred):
    """Sorted list of inclusive code-point ranges where pred(chr(c)) holds (computed once per category)."""
    if name not in _RANGES:
        out, start = [], None
        for c in range(sys.maxunicode + 1):
            if 0xD800 <= c <= 0xDFFF:
                ok = False
            else:
                ok = pred(chr(c))
            if ok and start is None:
                start = c
            elif not ok and start is not None:
                out.append((start, c - 1))
                start = None
        if start is not None:
            out.append((start, sys.maxunicode))
        _RANGES[name] = out
    return _RANGES[name]


_DIGIT = re.compile(r"\d")
_SPACE = re.compile(r"\s")
_WORD = re.compile(r"\w")


def _category_ranges(cat):
    if cat in (_C.CATEGORY_DIGIT, _C.CATEGORY_NOT_DIGIT):
        return _ranges_where("d", lambda ch: _DIGIT.match(ch) is not None), cat == _C.CATEGORY_NOT_DIGIT
    if cat in (_C.CATEGORY_SPACE, _C.CATEGORY_NOT_SPACE):
        return _ranges_where("s", lambda ch: _SPACE.match(ch) is not None), cat == _C.CATEGORY_NOT_SPACE
    if cat in (_C.CATEGORY_WORD, _C.CATEGORY_NOT_WORD):
        return _ranges_where("w", lambda ch: _WORD.match(ch) is not None), cat == _C.CATEGORY_NOT_WORD
    raise HarnessError("regex category %r outside the modelled fragment" % (cat,))


def _ranges_expr(c, ranges):
    return z3.Or([z3.And(c >= lo, c <= hi) if lo != hi else c == lo for lo, hi in ranges]) if ranges else z3.BoolVal(False)


def _in_expr(c, av):
    """z3 Bool: symbolic code point c is in the set described by an IN node's argument list."""
    negate = False
    parts = []
    for op, a in av:
        if op is _C.NEGATE:
            negate = True
        elif op is _C.LITERAL:
            parts.append(c == a)
        elif op is _C.RANGE:
            parts.append(z3.And(c >= a[0], c <= a[1]))
        elif op is _C.CATEGORY:
            rs, neg = _category_ranges(a)
            e = _ranges_expr(c, rs)
            parts.append(z3.Not(e) if neg else e)
        else:
            raise HarnessError("regex set item %r outside the modelled fragment" % (op,))
    e = z3.Or(parts) if parts else z3.BoolVal(False)
    return z3.Not(e) if negate else e


def _in_concrete(ch, av):
    negate = False
    hit = False
    o = ord(ch)
    for op, a in av:
        if op is _C.NEGATE:
            negate = True
        elif op is _C.LITERAL:
            hit = hit or o == a
        elif op is _C.RANGE:
            hit = hit or a[0] <= o <= a[1]
        elif op is _C.CATEGORY:
            rs, neg = _category_ranges(a)
            r = any(lo <= o <= hi for lo, hi in rs)
            hit = hit or (not r if neg else r)
        else:
            raise HarnessError("regex set item %r outside the modelled fragment" % (op,))
    return (not hit) if negate else hit


class SymMatch:
    def __init__(self, string, start, end, groups, n_groups, pattern):
        self.string, self._s, self._e, self._groups, self._n, self.re = string, start, end, groups, n_groups, pattern
        self.pos, self.endpos = 0, len(string)

    def _span(self, g):
        if g == 0:
            return (self._s, self._e)
        if not isinstance(g, int) or g < 0 or g > self._n:
            raise IndexError("no such group")
        return self._groups.get(g, (-1, -1))

    def start(self, g=0):
        return self._span(g)[0]

    def end(self, g=0):
        return self._span(g)[1]

    def span(self, g=0):
        return self._span(g)

    def group(self, *gs):
        if not gs:
            gs = (0,)
        out = []
        for g in gs:
            s, e = self._span(g)
            out.append(None if s < 0 else self.string[s:e])
        return out[0] if len(out) == 1 else tuple(out)

    def groups(self, default=None):
        return tuple((default if self._span(g)[0] < 0 else self.string[self._span(g)[0]:self._span(g)[1]]) for g in range(1, self._n + 1))

    def __getitem__(self, g):
        return self.group(g)

    @property
    def lastindex(self):
        idx = [g for g in self._groups if self._groups[g][0] >= 0]
        return max(idx) if idx else None


class SymRegex:
    """Drop-in for a compiled pattern; delegates to the original on plain str (or fully concrete SymStr)."""

    def __init__(self, orig, force=False):
        if isinstance(orig, SymRegex):
            orig = orig.orig
        self.orig = orig
        self._force = force          # self-test only: run the matcher on plain strings too
        self.pattern = orig.pattern
        self.flags = orig.flags
        self.groups = orig.groups
        self.groupindex = orig.groupindex
        self._tree = None

    # ---- helpers
    def _sym(self, s):
        if self._force and isinstance(s, str):
            return True
        return isinstance(s, SymStr) and not s.concrete()

    @staticmethod
    def _plain(s):
        return s.plain() if isinstance(s, SymStr) else s

    def _parsed(self):
        if self._tree is None:
            if not isinstance(self.pattern, str):
                raise HarnessError("bytes regex on a symbolic string")
            if self.flags & (re.IGNORECASE | re.LOCALE | re.ASCII):
                raise HarnessError("regex flags %r on a symbolic string are outside the modelled fragment" % (self.flags,))
            self._tree = _sre_parse.parse(self.pattern, self.flags & ~re.UNICODE)
        return self._tree

    def _test(self, item, concrete_fn, expr_fn):
        if isinstance(item, str):
            return concrete_fn(item)
        return fork(expr_fn(item))

    # ---- the matcher: continuation passing, alternatives tried in sre's order
    def _m(self, nodes, i, items, pos, groups, k):
        if i == len(nodes):
            return k(pos, groups)
        op, av = nodes[i]
        n = len(items)
        nxt = lambda p, g: self._m(nodes, i + 1, items, p, g, k)   # noqa: E731
        if op is _C.LITERAL:
            if pos < n and self._test(items[pos], lambda ch: ord(ch) == av, lambda c: c == av):
                return nxt(pos + 1, groups)
            return None
        if op is _C.NOT_LITERAL:
            if pos < n and self._test(items[pos], lambda ch: ord(ch) != av, lambda c: c != av):
                return nxt(pos + 1, groups)
            return None
        if op is _C.ANY:
            if pos < n and (self.flags & re.DOTALL or self._test(items[pos], lambda ch: ch != "\n", lambda c: c != 10)):
                return nxt(pos + 1, groups)
            return None
        if op is _C.IN:
            if pos < n and self._test(items[pos], lambda ch: _in_concrete(ch, av), lambda c: _in_expr(c, av)):
                return nxt(pos + 1, groups)
            return None
        if op is _C.BRANCH:
            for alt in av[1]:
                r = self._m(list(alt), 0, items, pos, groups, nxt)
                if r is not None:
                    return r
            return None
        if op is _C.SUBPATTERN:
            g, add_flags, del_flags, sub = av
            if add_flags or del_flags:
                raise HarnessError("inline regex flags are outside the modelled fragment")

            def close(p, gr, g=g, start=pos):
                if g is not None:
                    gr = dict(gr)
                    gr[g] = (start, p)
                return nxt(p, gr)
            return self._m(list(sub), 0, items, pos, groups, close)
        if op in (_C.MAX_REPEAT, _C.MIN_REPEAT):
            lo, hi, sub = av
            sub = list(sub)
            greedy = op is _C.MAX_REPEAT

            def rep(p, gr, count, last_p):
                def more():
                    if hi is not _C.MAXREPEAT and count >= hi:
                        return None
                    if count >= lo and p == last_p:
                        return None      # the previous iteration matched the empty string here: sre does not loop again
                    return self._m(sub, 0, items, p, gr, lambda p2, g2: rep(p2, g2, count + 1, p))

                def done():
                    return nxt(p, gr) if count >= lo else None
                first, second = (more, done) if greedy else (done, more)
                r = first()
                return r if r is not None else second()
            return rep(pos, groups, 0, -1)
        if op is _C.AT:
            if av in (_C.AT_BEGINNING, _C.AT_BEGINNING_STRING):
                ok = pos == 0
                if not ok and av is _C.AT_BEGINNING and self.flags & re.MULTILINE:
                    ok = self._test(items[pos - 1], lambda ch: ch == "\n", lambda c: c == 10)
            elif av is _C.AT_END_STRING:
                ok = pos == n
            elif av is _C.AT_END:
                ok = pos == n
                if not ok and pos == n - 1:
                    ok = self._test(items[pos], lambda ch: ch == "\n", lambda c: c == 10)
                if not ok and self.flags & re.MULTILINE and pos < n:
                    ok = self._test(items[pos], lambda ch: ch == "\n", lambda c: c == 10)
            elif av in (_C.AT_BOUNDARY, _C.AT_NON_BOUNDARY):
                wr, _ = _category_ranges(_C.CATEGORY_WORD)

                def isw(j):
                    if j < 0 or j >= n:
                        return False
                    return self._test(items[j], lambda ch: _WORD.match(ch) is not None, lambda c: _ranges_expr(c, wr))
                b = isw(pos - 1) != isw(pos)
                ok = b if av is _C.AT_BOUNDARY else not b
            else:
                raise HarnessError("regex anchor %r outside the modelled fragment" % (av,))
            return nxt(pos, groups) if ok else None
        if op in (_C.ASSERT, _C.ASSERT_NOT):
            direction, sub = av
            if direction < 0:
                raise HarnessError("regex look-behind is outside the modelled fragment")
            r = self._m(list(sub), 0, items, pos, groups, lambda p, g: (p, g))
            if op is _C.ASSERT:
                return nxt(pos, r[1]) if r is not None else None
            return nxt(pos, groups) if r is None else None
        raise HarnessError("regex construct %r outside the modelled fragment" % (op,))

    def _match_at(self, s, start, must_end=None, not_empty=False):
        s = SymStr.lift(s)
        tree = list(self._parsed())
        items = s.items

        def fin(p, g):
            if must_end is not None and p != must_end:
                return None
            if not_empty and p == start:
                return None
            return (p, g)
        r = self._m(tree, 0, items, start, {}, fin)
        if r is None:
            return None
        return SymMatch(s, start, r[0], r[1], self.groups, self)

    def _search_from(self, s, pos, must_advance=False):
        s = SymStr.lift(s)
        for start in range(pos, len(s.items) + 1):
            m = self._match_at(s, start, not_empty=must_advance and start == pos)
            if m is not None:
                return m
        return None

    # ---- the Pattern API
    def _window(self, s, pos, endpos):
        s = SymStr.lift(s)
        n = len(s.items)
        if endpos is not None and endpos < n:
            s = s[:max(0, endpos)]
        return s, max(0, min(pos, len(s.items)))

    def match(self, s, pos=0, endpos=None):
        if not self._sym(s):
            return self.orig.match(self._plain(s), pos, *(() if endpos is None else (endpos,)))
        s, pos = self._window(s, pos, endpos)
        return self._match_at(s, pos)

    def fullmatch(self, s, pos=0, endpos=None):
        if not self._sym(s):
            return self.orig.fullmatch(self._plain(s), pos, *(() if endpos is None else (endpos,)))
        s, pos = self._window(s, pos, endpos)
        return self._match_at(s, pos, must_end=len(s.items))

    def search(self, s, pos=0, endpos=None):
        if not self._sym(s):
            return self.orig.search(self._plain(s), pos, *(() if endpos is None else (endpos,)))
        s, pos = self._window(s, pos, endpos)
        return self._search_from(s, pos)

    def finditer(self, s, pos=0, endpos=None):
        if not self._sym(s):
            for m in self.orig.finditer(self._plain(s), pos, *(() if endpos is None else (endpos,))):
                yield m
            return
        s, pos = self._window(s, pos, endpos)
        must_advance = False
        while pos <= len(s.items):
            m = self._search_from(s, pos, must_advance)
            if m is None:
                return
            yield m
            must_advance = m.end() == m.start()
            pos = m.end()

    def findall(self, s, pos=0, endpos=None):
        if not self._sym(s):
            return self.orig.findall(self._plain(s), pos, *(() if endpos is None else (endpos,)))
        out = []
        for m in self.finditer(s, pos, endpos):
            if self.groups == 0:
                out.append(m.group(0))
            elif self.groups == 1:
                out.append(m.group(1) if m.start(1) >= 0 else "")
            else:
                out.append(tuple(x if x is not None else "" for x in m.groups()))
        return out

    def sub(self, repl, s, count=0):
        if not self._sym(s):
            return self.orig.sub(repl, self._plain(s), count)
        return self.subn(repl, s, count)[0]

    def subn(self, repl, s, count=0):
        if not self._sym(s):
            return self.orig.subn(repl, self._plain(s), count)
        if not callable(repl) and (not isinstance(repl, str) or "\\" in repl):
            raise HarnessError("regex sub replacement with escapes / group references is outside the modelled fragment")
        s = SymStr.lift(s)
        out, last, n = [], 0, 0
        for m in self.finditer(s):
            out.extend(s.items[last:m.start()])
            r = repl(m) if callable(repl) else repl
            out.extend(SymStr.lift(r).items)
            last = m.end()
            n += 1
            if count and n >= count:
                break
        out.extend(s.items[last:])
        return SymStr(out), n

    def split(self, s, maxsplit=0):
        if not self._sym(s):
            return self.orig.split(self._plain(s), maxsplit)
        s = SymStr.lift(s)
        out, last, n = [], 0, 0
        for m in self.finditer(s):
            out.append(s[last:m.start()])
            for g in range(1, self.groups + 1):
                out.append(m.group(g))
            last = m.end()
            n += 1
            if maxsplit and n >= maxsplit:
                break
        out.append(s[last:])
        return out

    def __repr__(self):
        return "SymRegex(%r)" % (self.pattern,)


class ReModuleProxy:
    """Stands in for the module `re` inside the code under test: module-level functions accept symbolic strings."""

    def __init__(self):
        self._cache = {}

    def __getattr__(self, name):
        return getattr(re, name)

    def compile(self, pattern, flags=0):
        if isinstance(pattern, SymRegex):
            return pattern
        if isinstance(pattern, SymStr):
            if not pattern.concrete():
                raise HarnessError("regex pattern built from a symbolic string")
            pattern = pattern.plain()
        key = (pattern, flags)
        if key not in self._cache:
            self._cache[key] = SymRegex(re.compile(pattern, flags))
        return self._cache[key]

    def search(self, pattern, string, flags=0):
        return self.compile(pattern, flags).search(string)

    def match(self, pattern, string, flags=0):
        return self.compile(pattern, flags).match(string)

    def fullmatch(self, pattern, string, flags=0):
        return self.compile(pattern, flags).fullmatch(string)

    def finditer(self, pattern, string, flags=0):
        return self.compile(pattern, flags).finditer(string)

    def findall(self, pattern, string, flags=0):
        return self.compile(pattern, flags).findall(string)

    def sub(self, pattern, repl, string, count=0, flags=0):
        return self.compile(pattern, flags).sub(repl, string, count)

    def subn(self, pattern, repl, string, count=0, flags=0):
        return self.compile(pattern, flags).subn(repl, string, count)

    def split(self, pattern, string, maxsplit=0, flags=0):
        return self.compile(pattern, flags).split(string, maxsplit)


RE_PROXY = ReModuleProxy()
