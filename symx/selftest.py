"""Proxy API self-test: every modelled SymStr / SymInt / SymFloat operation is compared with the
builtin on all-concrete proxies (seeded), and on one-symbolic-character strings whose model is then
compared with the builtin on the concretised value.  Any disagreement is a HarnessError."""
import random
import re

import z3

from .core import Explorer, HarnessError
from .symstr import SymStr, RegexShim, sym_chars
from .symnum import SymInt, SymFloat, sym_float, sym_int, instantiate

_ALPHA = ['\r', '\x0b', '\u2028', 'a', 'b', '"', '\\', '@', '^', ' ', '\t', '\n', '<', '>', '#', ':', '/', '.', '1', 'A', 'é', ' ', '_', '%', ';', ',']
_PATTERNS = ["[\r\n\t]", "  +", '[^\\\\]"', " #", "[:/#]", " +", "http[s]?\\://"]


def _rs(rng, n):
    return "".join(rng.choice(_ALPHA) for _ in range(n))


def _plain(x):
    if isinstance(x, SymStr):
        return x.plain()
    if isinstance(x, (list, tuple)):
        return type(x)(_plain(i) for i in x)
    return x


def _str_ops(rng):
    s, t, u = _rs(rng, rng.randint(0, 9)), _rs(rng, rng.randint(1, 2)), _rs(rng, rng.randint(0, 2))
    i, j = rng.randint(-3, 9), rng.randint(-3, 9)
    ops = [
        ("find", lambda x: x.find(t)), ("find2", lambda x: x.find(t, max(i, 0))), ("rfind", lambda x: x.rfind(t)),
        ("in", lambda x: t in x), ("startswith", lambda x: x.startswith(t)), ("endswith", lambda x: x.endswith(t)),
        ("startswith_t", lambda x: x.startswith((t, u))),
        ("strip", lambda x: x.strip()), ("lstrip", lambda x: x.lstrip()), ("rstrip", lambda x: x.rstrip()),
        ("stripc", lambda x: x.strip(t)), ("split", lambda x: x.split(t)), ("splitws", lambda x: x.split()),
        ("replace", lambda x: x.replace(t, u)), ("count", lambda x: x.count(t)),
        ("lower", lambda x: x.lower()), ("upper", lambda x: x.upper()),
        ("isnumeric", lambda x: x.isnumeric()), ("isspace", lambda x: x.isspace()), ("isdigit", lambda x: x.isdigit()), ("isalpha", lambda x: x.isalpha()), ("isalnum", lambda x: x.isalnum()), ("splitlines", lambda x: x.splitlines()), ("splitlines_k", lambda x: x.splitlines(True)),
        ("slice", lambda x: x[i:j]), ("rev", lambda x: x[::-1]), ("len", lambda x: len(x)),
        ("add", lambda x: x + t), ("radd", lambda x: t + x), ("eq", lambda x: x == t), ("ne", lambda x: x != t),
        ("eqr", lambda x: t == x), ("inlist", lambda x: x in [t, u, s]), ("join", lambda x: type(x)(t).join([x, x]) if isinstance(x, SymStr) else t.join([x, x])),
        ("iter", lambda x: [c for c in x]), ("str", lambda x: str(x)), ("bool", lambda x: bool(x)),
    ]
    return s, ops


_RE_PATTERNS = ['@[a-zA-Z]+(-[a-zA-Z]+)*', '[^\\\\]"', '  +', 'http[s]?\\://', '(a|bc)*?d$', '\\s+#', '^\\w+:', ' #', '[\r\n\t]', '[:/#]', 'x*', '(x)|(y)', 'a{2,3}b?',
                '(?:ab)+', '\\bfoo\\b', 'a|ab', '(a|ab)(c|bcd)', '.*c', '.+?c', '[^a-c]+', '\\d+\\.\\d*', '(a*)*b', '(?=a)a+', 'a(?!b)', '\\S+@\\S+', '"(\\\\.|[^"\\\\])*"']
_RE_ALPHABET = 'abcdx y#:/"\\@-A\n\t.1\u00e9'


def run(seed=0, rounds=150):
    rng = random.Random(seed)
    n_checks = [0]

    def fn(ex):
        for _ in range(rounds):
            s, ops = _str_ops(rng)
            for name, op in ops:
                try:
                    want = op(s)
                except Exception as e:  # noqa
                    want = ("EXC", type(e).__name__)
                try:
                    got = _plain(op(SymStr(tuple(s))))
                except HarnessError:
                    raise
                except Exception as e:  # noqa
                    got = ("EXC", type(e).__name__)
                if got != want:
                    raise HarnessError("SymStr self-test: %s on %r: %r != %r" % (name, s, got, want))
                n_checks[0] += 1
            for pat in _PATTERNS:
                cp = re.compile(pat)
                sh = RegexShim(cp)
                ss = SymStr(tuple(s))
                # force the symbolic code path by pretending non-concreteness
                items = ss.items
                got_sub = sh.sub(" ", s)
                want = cp.sub(" ", s)
                if got_sub != want:
                    raise HarnessError("regex shim delegate mismatch")
                m = [x.start(0) for x in _finditer_sym(sh, items)]
                if m != [x.start(0) for x in cp.finditer(s)]:
                    raise HarnessError("regex shim finditer mismatch %r on %r: %r" % (pat, s, m))
                if "".join(_sub_sym(sh, items, " ")) != want:
                    raise HarnessError("regex shim sub mismatch %r on %r" % (pat, s))
                sm, wm = _search_sym(sh, items), cp.search(s)
                if (sm is None) != (wm is None) or (sm is not None and sm != wm.start(0)):
                    raise HarnessError("regex shim search mismatch %r on %r" % (pat, s))
                n_checks[0] += 3
        # general symbolic regex engine (symre) against re: positions, groups, finditer, sub, split on random strings
        from .symre import SymRegex
        for pat in _RE_PATTERNS:
            cp = re.compile(pat)
            sr = SymRegex(cp, force=True)
            for _ in range(max(4, rounds // 3)):
                s = "".join(rng.choice(_RE_ALPHABET) for _ in range(rng.randint(0, 7)))
                for meth in ("match", "search", "fullmatch"):
                    a, b = getattr(cp, meth)(s), getattr(sr, meth)(s)
                    if (a is None) != (b is None) or (a is not None and [a.span(g) for g in range(cp.groups + 1)] != [b.span(g) for g in range(cp.groups + 1)]):
                        raise HarnessError("symre self-test: %s %r on %r" % (meth, pat, s))
                if [m.span() for m in cp.finditer(s)] != [m.span() for m in sr.finditer(s)]:
                    raise HarnessError("symre self-test: finditer %r on %r" % (pat, s))
                if cp.sub("<>", s) != _plain(sr.sub("<>", s)) or cp.split(s) != _plain(sr.split(s)):
                    raise HarnessError("symre self-test: sub/split %r on %r" % (pat, s))
                n_checks[0] += 6
        # numbers
        for _ in range(rounds):
            a, b, n = rng.randint(0, 9), rng.randint(0, 9), rng.randint(1, 9)
            A, B = SymInt(z3.IntVal(a), a, a), SymInt(z3.IntVal(b), b, b)
            fa, fb = sym_float(A) / float(n), sym_float(B) / float(n)
            ra, rb = float(a) / float(n), float(b) / float(n)
            checks = [(fa >= fb, ra >= rb), (fa + fb != 1, ra + rb != 1), (fa == fb, ra == rb), (fa < fb, ra < rb),
                      (abs(fa - fb) > 0, abs(ra - rb) > 0), (A + B == a + b, True), (A - B < 0, a - b < 0),
                      (A * 3 > B, a * 3 > b), (fa * 100 > 50, ra * 100 > 50)]
            for got, want in checks:
                if got != want:
                    raise HarnessError("number self-test mismatch a=%d b=%d n=%d" % (a, b, n))
                n_checks[0] += 1
            txt = "%s|%s|%s|%s" % (str(fa * 100), "{:.2f}".format(fb * 100), str(sym_int(fa * 100)), str(A + B))
            model = ex.model()
            got = instantiate(txt, ex.tokens, model)
            want = "%s|%s|%s|%s" % (str(ra * 100), "{:.2f}".format(rb * 100), str(int(ra * 100)), str(a + b))
            if got != want:
                raise HarnessError("token self-test mismatch %r != %r" % (got, want))
            n_checks[0] += 1
        return None

    ex = Explorer(path_ops=10 ** 9, path_wall_s=600)
    ex.explore(fn, lambda res, e: None)
    # symbolic-character differential: one free char, every path's model must agree with str
    paths = [0]

    def fn2(ex):
        c = sym_chars(ex, "c", 1)[0]
        s = SymStr(("a", c, '"', c, " "))
        r = (s.find('"'), s.strip(), s.split(" "), s.replace("a" + '"', "Z"), s.lower(), s.isnumeric(), s[1].isspace(),
             s.rfind("@"), s.count(" "), s.endswith("  "))
        return s, r

    def on2(res, ex):
        s, r = res
        m = ex.model()
        cs = s.model_str(m)
        want = (cs.find('"'), cs.strip(), cs.split(" "), cs.replace("a" + '"', "Z"), cs.lower(), cs.isnumeric(), cs[1].isspace(),
                cs.rfind("@"), cs.count(" "), cs.endswith("  "))
        got = tuple(_conc(x, m) for x in r)
        if got != want:
            raise HarnessError("symbolic-char self-test mismatch on %r: %r != %r" % (cs, got, want))
        paths[0] += 1

    ex2 = Explorer()
    ex2.explore(fn2, on2)
    return {"concrete_checks": n_checks[0], "symbolic_paths": paths[0]}


def _conc(x, m):
    if isinstance(x, SymStr):
        return x.model_str(m)
    if isinstance(x, list):
        return [_conc(i, m) for i in x]
    return x


def _finditer_sym(sh, items):
    i = 0
    while i <= len(items):
        j = sh._match_at(items, i)
        if j is None:
            i += 1
        else:
            yield type("M", (), {"start": staticmethod(lambda g=0, i=i: i)})
            i = j if j > i else i + 1


def _sub_sym(sh, items, repl):
    out, i = [], 0
    while i < len(items):
        j = sh._match_at(items, i)
        if j is None or j == i:
            out.append(items[i])
            i += 1
        else:
            out.extend(repl)
            i = j
    return out


def _search_sym(sh, items):
    for i in range(len(items) + 1):
        if sh._match_at(items, i) is not None:
            return i
    return None


if __name__ == "__main__":
    import sys
    print(run(int(sys.argv[1]) if len(sys.argv) > 1 else 0))
