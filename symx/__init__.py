from .core import (Explorer, Ctx, cur, fork, SymBool, Infeasible, Cut, Hang, HarnessError, Inconclusive)
from .symstr import (SymStr, RegexShim, sym_chars, concretize, leak_scan, unicode_scalar, in_ranges, SENTINEL)
from .symnum import (SymInt, SymReal, SymFloat, sym_float, sym_int, instantiate, render_token, q, TOKEN_L, TOKEN_R)

from .symre import SymRegex, SymMatch, RE_PROXY
