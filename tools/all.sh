#!/bin/bash
# usage: tools/all.sh <quick|thorough> [Cxx ...]   -- runs the checks one after another and prints one summary line each
tier="${1:-quick}"; shift
cd "$(dirname "$0")/.."
props="$@"; [ -z "$props" ] && props="C01 C02 C03 C04 C05 C06 C07 C08 C09 C10 C11 C12 C13 C14 C16 C17 C18 C20"
for p in $props; do
  s=$(date +%s)
  out=$(./run $p $tier 2>&1); code=$?
  echo "$p $tier exit=$code $(( $(date +%s) - s ))s :: $(echo "$out" | tail -1 | cut -c1-200)"
  [ $code -ne 0 ] && echo "$out" | grep -E "^(VIOLATION|HARNESS-ERROR|INCONCLUSIVE|  what)" | cut -c1-300 | head -6
done
