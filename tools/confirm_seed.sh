#!/bin/bash
# usage: tools/confirm_seed.sh <dir with patch.diff demo.py notes.md> <Cxx> <name>
# Confirms in a scratch worktree: demo passes on HEAD, fails with the patch, baseline suite still passes; then stores under /verif/seeded/<name>/
set -u
src="$1"; prop="$2"; name="$3"
wt=/tmp/seedconfirm_$$
git -C /repo worktree add -q --detach "$wt" HEAD || exit 9
cd "$wt"
PYTHONPATH="$wt" /venv/bin/python "$src/demo.py" >/tmp/seedconfirm_$$.a 2>&1; a=$?
git apply "$src/patch.diff" || { echo "patch does not apply"; git -C /repo worktree remove --force "$wt"; exit 9; }
PYTHONPATH="$wt" /venv/bin/python "$src/demo.py" >/tmp/seedconfirm_$$.b 2>&1; b=$?
/venv/bin/python /verif/tools/baseline.py "$wt" >/tmp/seedconfirm_$$.c 2>&1; c=$?
cd /verif
git -C /repo worktree remove --force "$wt"
echo "demo on HEAD exit=$a ; demo with patch exit=$b ; baseline exit=$c ($(tail -1 /tmp/seedconfirm_$$.c))"
if [ $a -eq 0 ] && [ $b -ne 0 ] && [ $c -eq 0 ]; then
  mkdir -p /verif/seeded/$name
  cp "$src/patch.diff" "$src/demo.py" /verif/seeded/$name/
  [ -f "$src/notes.md" ] && cp "$src/notes.md" /verif/seeded/$name/
  echo CONFIRMED
else
  echo "NOT CONFIRMED"; tail -5 /tmp/seedconfirm_$$.b
fi
rm -f /tmp/seedconfirm_$$.*
