"""Runs the repository's pinned baseline (guard off) and compares the passing set with /root/.vp/BASELINE.json.
usage: python tools/baseline.py [repo_dir]   -> exit 0 iff every stable_pass test passes."""
import json
import os
import subprocess
import sys
import tempfile
import xml.etree.ElementTree as ET

repo = sys.argv[1] if len(sys.argv) > 1 else "/repo"
base = json.load(open("/root/.vp/BASELINE.json"))
fd, junit = tempfile.mkstemp(suffix=".xml")
os.close(fd)
env = dict(os.environ)
env.pop("SHEXER_VERIF", None)
env.pop("PYTHONPATH", None)
cmd = "cd %s && /venv/bin/python -m pytest -ra -q -p no:cacheprovider --timeout=900 --continue-on-collection-errors --junitxml=%s" % (repo, junit)
p = subprocess.run(cmd, shell=True, env=env, capture_output=True, text=True)
passed = set()
for tc in ET.parse(junit).getroot().iter("testcase"):
    if not any(ch.tag in ("failure", "error", "skipped") for ch in tc):
        passed.add("%s::%s" % (tc.get("classname"), tc.get("name")))
os.unlink(junit)
missing = [t for t in base["stable_pass"] if t not in passed]
print("passed=%d stable_pass=%d missing=%d" % (len(passed), len(base["stable_pass"]), len(missing)))
for m in missing[:20]:
    print("  MISSING", m)
sys.exit(1 if missing else 0)
