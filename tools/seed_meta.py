"""usage: seed_meta.py <name> <property> <status> <needs> <ran>  -- writes /verif/seeded/<name>/meta.json"""
import json, sys
name, prop, status, needs, ran = sys.argv[1:6]
json.dump(dict(id=name, property=prop, breaks=prop, needs_to_manifest=needs, confirmed="demo exits 0 on HEAD and non-zero with the patch; the 182-test baseline still passes with the patch (tools/confirm_seed.sh, scratch worktree)",
               detection=status, ran=ran), open("/verif/seeded/%s/meta.json" % name, "w"), indent=1)
