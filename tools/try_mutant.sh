#!/bin/bash
# usage: tools/try_mutant.sh <patch.diff> <Cxx> [tier]  -- applies the patch to /repo, runs the check, reverts.
set -u
patch="$1"; prop="$2"; tier="${3:-quick}"
cd /repo || exit 9
git diff --quiet || { echo "/repo is dirty"; exit 9; }
git apply "$patch" || { echo "patch does not apply"; exit 9; }
cd /verif
out=$(./run "$prop" "$tier" 2>&1); code=$?
git -C /repo checkout -- .
echo "$out" | grep -E "^(VIOLATION|HARNESS-ERROR|INCONCLUSIVE|  what|$prop )" | cut -c1-300 | head -12
echo "exit=$code"
