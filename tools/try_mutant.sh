#!/bin/bash
# usage: tools/try_mutant.sh <patch.diff> <Cxx> [tier]  -- applies the patch to a scratch worktree of /repo (never to /repo itself), runs the check on it, removes the worktree.
set -u
patch="$1"; prop="$2"; tier="${3:-quick}"
wt=/tmp/mutwt_$$
git -C /repo worktree add -q --detach "$wt" HEAD || exit 9
( cd "$wt" && git apply "$patch" ) || { echo "patch does not apply"; git -C /repo worktree remove --force "$wt"; exit 9; }
cd /verif
out=$(VERIF_REPO="$wt" ./run "$prop" "$tier" 2>&1); code=$?
git -C /repo worktree remove --force "$wt"
echo "$out" | grep -E "^(VIOLATION|HARNESS-ERROR|INCONCLUSIVE|  what|$prop )" | cut -c1-300 | head -12
echo "exit=$code"
