"""C20 decision procedure: accept/reject boundary of Shaper.__init__ and Shaper.shex_graph as SMT queries.

raises_impl(args) is obtained by translating the *current source* of the validation code (translate.py);
raises_ref(args) is the reference predicate transcribed from the property statement.  The query
raises_impl != raises_ref is asked of z3 (python API) and, as SMT-LIB text, of /usr/bin/z3; UNSAT on both
decides the property for every presence combination and every string.  A model is materialised into real
arguments and replayed on the real API.
"""
import ast
import importlib
import json
import os
import random
import struct
import subprocess
import tempfile
import time

import z3

from .translate import Interp, Opt, Sym, Unsupported, function_ast

SOURCES = ["graph_file_input", "graph_list_of_files_input", "raw_graph", "url_graph_input", "list_of_url_input",
           "url_endpoint", "rdflib_graph"]
TARGETS = ["target_classes", "file_target_classes", "shape_map_file", "shape_map_raw"]
OPT_STRINGS = ["compression_mode", "examples_mode"]
FP_ARGS = ["acceptance_threshold"]

DUMMIES = {
    "graph_file_input": "/nonexistent/graph.nt", "graph_list_of_files_input": ["/nonexistent/a.nt"],
    "raw_graph": "<http://a/s> <http://a/p> <http://a/o> .", "url_graph_input": "http://localhost:1/g.nt",
    "list_of_url_input": ["http://localhost:1/g.nt"], "url_endpoint": "http://localhost:1/sparql", "rdflib_graph": object(),
    "target_classes": ["http://a/C"], "file_target_classes": "/nonexistent/classes.txt",
    "shape_map_file": "/nonexistent/map.sm", "shape_map_raw": "<http://a/s>@<http://a/S>",
    "output_file": "/nonexistent/out.shex", "to_uml_path": "/nonexistent/out.png",
    "instances_file_input": "/nonexistent/i.nt", "namespaces_dict": {}, "namespaces_to_ignore": ["http://a/"],
    "namespaces_for_qualifier_props": ["http://a/"],
}


def _shaper_module():
    return importlib.import_module("shexer.shaper")


def make_fresh(table):
    def fresh(name, default):
        if name in table:
            return table[name]
        if isinstance(default, ast.Constant) and default.value is None or default is None:
            v = Opt(name, z3.Bool(name + "__present"), z3.String(name + "__val") if name in OPT_STRINGS else None)
        elif isinstance(default, ast.Constant) and isinstance(default.value, bool):
            v = Sym(name, z3.Bool(name))
        elif name in FP_ARGS:
            v = Sym(name, z3.FP(name, z3.Float64()))
        elif isinstance(default, ast.Constant) and isinstance(default.value, int) or (
                isinstance(default, ast.UnaryOp) and isinstance(default.operand, ast.Constant) and isinstance(default.operand.value, int)):
            v = Sym(name, z3.Int(name))
        elif isinstance(default, (ast.Name, ast.Constant)):
            v = Sym(name, z3.String(name))
        else:
            raise Unsupported("cannot type parameter %s" % name)
        table[name] = v
        return v
    return fresh


def _resolver():
    shaper = _shaper_module()
    objref = importlib.import_module("shexer.utils.obj_references")

    def resolve(name):
        if hasattr(shaper.Shaper, name):
            f = getattr(shaper.Shaper, name)
            f = getattr(f, "__func__", f)
            return function_ast(f)
        if hasattr(objref, name):
            return function_ast(getattr(objref, name))
        if hasattr(shaper, name) and callable(getattr(shaper, name)) and getattr(getattr(shaper, name), "__module__", "") == "shexer.utils.obj_references":
            return function_ast(getattr(shaper, name))
        return None
    return resolve


def _globals():
    shaper = _shaper_module()
    return {k: v for k, v in vars(shaper).items() if isinstance(v, (str, int, float)) and not k.startswith("__")}


def _guard_prefix(fd, stop_at_assign_attr=True, only_calls_prefix=None):
    """Statements of the function up to (not including) the first `self.x = ...` assignment / first non-check statement."""
    out = []
    for st in fd.body:
        if isinstance(st, ast.Assign) and any(isinstance(t, ast.Attribute) for t in st.targets):
            break
        if isinstance(st, ast.If) and only_calls_prefix:
            break
        out.append(st)
    return out


def _guard_like(st):
    if isinstance(st, ast.Expr) and isinstance(st.value, ast.Constant):
        return True
    if isinstance(st, ast.Expr) and isinstance(st.value, ast.Call):
        f = st.value.func
        name = f.attr if isinstance(f, ast.Attribute) else (f.id if isinstance(f, ast.Name) else "")
        return name.startswith("_check") or name.startswith("check_")
    if isinstance(st, ast.Raise):
        return True
    if isinstance(st, ast.If):
        inner = list(st.body) + list(st.orelse)
        return bool(inner) and all(_guard_like(x) for x in inner) and any(_has_guard(x) for x in inner)
    return False


def _has_guard(st):
    if isinstance(st, ast.Raise):
        return True
    if isinstance(st, ast.Expr) and isinstance(st.value, ast.Call):
        return True
    if isinstance(st, ast.If):
        return any(_has_guard(x) for x in list(st.body) + list(st.orelse))
    return False


def translate_ctor():
    shaper = _shaper_module()
    fd = function_ast(shaper.Shaper.__init__)
    table = {}
    fresh = make_fresh(table)
    it = Interp(_resolver(), _globals(), fresh)
    params = [a.arg for a in fd.args.args][1:]
    defaults = fd.args.defaults
    dmap = {p: d for p, d in zip(params[len(params) - len(defaults):], defaults)}
    env = LazyEnv(lambda name: fresh(name, dmap[name]) if name in dmap else None)
    body = _guard_prefix(fd)
    it.exec_block(body, env, z3.BoolVal(True))
    return it, table, [ast.unparse(s)[:80] for s in body]


def translate_shex_graph():
    shaper = _shaper_module()
    fd = function_ast(shaper.Shaper.shex_graph)
    table = {}
    fresh = make_fresh(table)
    it = Interp(_resolver(), _globals(), fresh)
    params = [a.arg for a in fd.args.args][1:]
    defaults = fd.args.defaults
    dmap = {p: d for p, d in zip(params[len(params) - len(defaults):], defaults)}
    env = LazyEnv(lambda name: fresh(name, dmap[name]) if name in dmap else None)
    body = []
    for st in fd.body:   # the leading run of guard-like statements (docstring, _check_* calls, ifs made only of those / raises)
        if _guard_like(st):
            body.append(st)
        else:
            break
    it.exec_block(body, env, z3.BoolVal(True))
    return it, table, [ast.unparse(s)[:80] for s in body]


class LazyEnv(dict):
    def __init__(self, factory):
        dict.__init__(self)
        self._factory = factory

    def clone(self):
        c = LazyEnv(self._factory)
        c.update(self)
        return c

    def __contains__(self, k):
        if dict.__contains__(self, k):
            return True
        v = self._factory(k)
        if v is None:
            return False
        self[k] = v
        return True

    def __getitem__(self, k):
        if not dict.__contains__(self, k):
            v = self._factory(k)
            if v is None:
                raise KeyError(k)
            self[k] = v
        return dict.__getitem__(self, k)


# ------------------------------------------------------------------------- reference predicates

def _present(table, fresh, name):
    v = table.get(name) or fresh(name, ast.Constant(None))
    return v.present


def ref_ctor(table, fresh, g):
    def P(n):
        return _present(table, fresh, n)

    def B(n):
        return (table.get(n) or fresh(n, ast.Constant(False))).e

    def cnt(names):
        return z3.Sum([z3.If(P(n), 1, 0) for n in names])
    comp = table.get("compression_mode") or fresh("compression_mode", ast.Constant(None))
    exm = table.get("examples_mode") or fresh("examples_mode", ast.Constant(None))
    fmt = (table.get("input_format") or fresh("input_format", ast.Name("NT"))).e
    known_fmt = [g[k] for k in ("NT", "TSV_SPO", "N3", "TURTLE", "RDF_XML", "JSON_LD", "TURTLE_ITER")]
    known_comp = [g[k] for k in ("ZIP", "GZ", "XZ")]
    known_ex = [g[k] for k in ("ALL_EXAMPLES", "CONSTRAINT_EXAMPLES", "SHAPE_EXAMPLES")]
    return z3.Or(
        cnt(SOURCES) != 1,
        z3.And(z3.Not(B("all_classes_mode")), cnt(TARGETS) != 1),
        z3.And(B("all_classes_mode"), z3.Or(P("target_classes"), P("file_target_classes"))),
        z3.And(B("disable_or_statements"), B("allow_redundant_or")),
        z3.Not(z3.Or([fmt == z3.StringVal(x) for x in known_fmt])),
        z3.And(comp.present, z3.Not(z3.Or([comp.val == z3.StringVal(x) for x in known_comp]))),
        z3.And(comp.present, z3.Or(P("url_endpoint"), P("url_graph_input"), P("list_of_url_input"))),
        z3.And(exm.present, z3.Not(z3.Or([exm.val == z3.StringVal(x) for x in known_ex]))),
    )


def ref_shex_graph(table, fresh, g):
    def P(n):
        return _present(table, fresh, n)
    so = (table.get("string_output") or fresh("string_output", ast.Constant(False))).e
    fmt = (table.get("output_format") or fresh("output_format", ast.Name("SHEXC"))).e
    t = (table.get("acceptance_threshold") or fresh("acceptance_threshold", ast.Constant(0))).e
    zero, one = z3.FPVal(0.0, z3.Float64()), z3.FPVal(1.0, z3.Float64())
    in_range = z3.And(z3.fpLEQ(zero, t), z3.fpLEQ(t, one))
    return z3.Or(
        z3.And(z3.Not(so), z3.Not(P("output_file")), z3.Not(P("to_uml_path"))),
        z3.Not(z3.Or(fmt == z3.StringVal(g["SHEXC"]), fmt == z3.StringVal(g["SHACL_TURTLE"]))),
        z3.Not(in_range),
    )


# ------------------------------------------------------------------------- model -> real arguments

def _fp_value(model, e):
    if z3.is_true(model.eval(z3.fpIsNaN(e), model_completion=True)):
        return float("nan")
    bv = model.eval(z3.fpToIEEEBV(e), model_completion=True)
    return struct.unpack(">d", struct.pack(">Q", bv.as_long()))[0]


def materialise(table, model):
    kwargs = {}
    for name, v in table.items():
        if isinstance(v, Opt):
            present = z3.is_true(model.eval(v.present, model_completion=True))
            if not present:
                kwargs[name] = None
            elif v.val is not None:
                kwargs[name] = model.eval(v.val, model_completion=True).as_string()
            else:
                kwargs[name] = DUMMIES.get(name, "dummy")
        else:
            e = v.e
            mv = model.eval(e, model_completion=True)
            if z3.is_bool(e):
                kwargs[name] = z3.is_true(mv)
            elif z3.is_fp(e):
                kwargs[name] = _fp_value(model, e)
            elif z3.is_int(e):
                kwargs[name] = mv.as_long()
            else:
                kwargs[name] = mv.as_string()
    return kwargs


def jsonable(kwargs):
    out = {}
    for k, v in kwargs.items():
        if isinstance(v, float) and (v != v or v in (float("inf"), float("-inf"))):
            out[k] = {"float": repr(v)}
        elif isinstance(v, (str, int, float, bool, list, dict)) or v is None:
            out[k] = v
        else:
            out[k] = {"dummy": k}
    return out


def unjson(kwargs):
    out = {}
    for k, v in kwargs.items():
        if isinstance(v, dict) and "float" in v:
            out[k] = float(v["float"])
        elif isinstance(v, dict) and "dummy" in v:
            out[k] = DUMMIES.get(v["dummy"], object())
        else:
            out[k] = v
    return out


# ------------------------------------------------------------------------- the real API (stubs after the guards)

def real_ctor_raises(kwargs):
    """'ValueError' | 'OK' | other exception name, from the real constructor with the two post-guard factories stubbed."""
    shaper = _shaper_module()
    saved = (shaper.get_remote_graph_if_needed, shaper.get_shape_map_if_needed)
    shaper.get_remote_graph_if_needed = lambda *a, **k: None
    shaper.get_shape_map_if_needed = lambda *a, **k: None
    try:
        kw = dict(kwargs)
        if isinstance(kw.get("namespaces_dict"), dict):
            kw["namespaces_dict"] = dict(kw["namespaces_dict"])
        shaper.Shaper(**kw)
        return "OK"
    except ValueError:
        return "ValueError"
    except Exception as e:  # noqa
        return type(e).__name__
    finally:
        shaper.get_remote_graph_if_needed, shaper.get_shape_map_if_needed = saved


def real_shex_graph_raises(kwargs):
    shaper = _shaper_module()
    obj = shaper.Shaper.__new__(shaper.Shaper)
    obj._target_classes_dict, obj._profile, obj._shape_list = {}, {}, []
    obj._generate_uml_diagram = lambda *a, **k: None

    class _S:
        def serialize_shapes(self):
            return ""
    obj._build_shapes_serializer = lambda *a, **k: _S()
    try:
        shaper.Shaper.shex_graph(obj, **kwargs)
        return "OK"
    except ValueError:
        return "ValueError"
    except Exception as e:  # noqa
        return type(e).__name__


def replay(args):
    kwargs = unjson(args["kwargs"])
    real = real_ctor_raises(kwargs) if args["api"] == "ctor" else real_shex_graph_raises(kwargs)
    want = "ValueError" if args["ref_raises"] else "OK"
    if real != want:
        print("%s(%s): reference says %s, real code: %s" % (args["api"], json.dumps(args["kwargs"], default=str)[:400], want, real))
        return True
    return False


# ------------------------------------------------------------------------- second solver

def second_opinion(solver_assertions, timeout_s=60):
    s = z3.Solver()
    s.add(solver_assertions)
    text = "(set-option :produce-models false)\n" + s.to_smt2()
    fd, path = tempfile.mkstemp(suffix=".smt2")
    os.write(fd, text.encode())
    os.close(fd)
    try:
        p = subprocess.run(["/usr/bin/z3", "-T:%d" % timeout_s, path], capture_output=True, text=True, timeout=timeout_s + 10)
        out = p.stdout.strip()
    except Exception as e:  # noqa
        out = "error: %r" % (e,)
    finally:
        os.unlink(path)
    if "(error" in out or "error" in out.split("\n")[0]:
        return "inconclusive:" + out[:200]
    return out.split("\n")[0].strip()


# ------------------------------------------------------------------------- translator validation

def extract_test_calls():
    """Constructor keyword sets used by /repo's own tests (AST), as presence/flag/string assignments."""
    import glob
    consts = importlib.import_module("shexer.consts")
    calls = []
    for path in sorted(glob.glob(os.environ.get("VERIF_REPO", "/repo") + "/test/**/*.py", recursive=True)):
        try:
            tree = ast.parse(open(path).read())
        except SyntaxError:
            continue
        for node in ast.walk(tree):
            if isinstance(node, ast.Call) and isinstance(node.func, ast.Name) and node.func.id == "Shaper":
                kw = {}
                ok = True
                for k in node.keywords:
                    if k.arg is None:
                        ok = False
                        break
                    v = k.value
                    if isinstance(v, ast.Constant):
                        kw[k.arg] = v.value
                    elif isinstance(v, ast.Name) and hasattr(consts, v.id):
                        kw[k.arg] = getattr(consts, v.id)
                    else:
                        kw[k.arg] = DUMMIES.get(k.arg, "dummy")
                if ok:
                    calls.append(kw)
    return calls


def formula_value(table, expr, kwargs, extra_defaults):
    """Evaluate the z3 formula under a concrete argument assignment (absent kwargs take the API defaults)."""
    s = z3.Solver()
    for name, v in table.items():
        val = kwargs.get(name, extra_defaults.get(name))
        if isinstance(v, Opt):
            s.add(v.present == (val is not None))
            if v.val is not None and isinstance(val, str):
                s.add(v.val == z3.StringVal(val))
        else:
            e = v.e
            if z3.is_bool(e):
                s.add(e == bool(val))
            elif z3.is_fp(e):
                s.add(z3.fpToIEEEBV(e) == z3.BitVecVal(struct.unpack(">Q", struct.pack(">d", float(val)))[0], 64) if float(val) == float(val) else z3.fpIsNaN(e))
            elif z3.is_int(e):
                s.add(e == int(val))
            else:
                s.add(e == z3.StringVal(str(val)))
    s.add(expr)
    r = s.check()
    if r == z3.unknown:
        raise Unsupported("solver unknown while evaluating the formula")
    return r == z3.sat


def api_defaults(func):
    sig = importlib.import_module("inspect").signature(func)
    return {k: p.default for k, p in sig.parameters.items() if p.default is not p.empty}


def random_kwargs(rng, table, g, api):
    kw = {}
    fmt_pool = [g[k] for k in ("NT", "TSV_SPO", "N3", "TURTLE", "RDF_XML", "JSON_LD", "TURTLE_ITER")] + ["bogus", ""]
    for name, v in table.items():
        if isinstance(v, Opt):
            if v.val is not None:
                pool = [None, None, g["ZIP"], g["GZ"], g["XZ"], "bogus"] if name == "compression_mode" else \
                    [None, None, g["ALL_EXAMPLES"], g["CONSTRAINT_EXAMPLES"], g["SHAPE_EXAMPLES"], "bogus"]
                kw[name] = rng.choice(pool)
            else:
                kw[name] = DUMMIES.get(name, "dummy") if rng.random() < 0.3 else None
        else:
            e = v.e
            if z3.is_bool(e):
                kw[name] = rng.random() < 0.5
            elif z3.is_fp(e):
                kw[name] = rng.choice([-0.01, 0, 0.0, 0.5, 1, 1.0, 1.01, float("nan"), float("inf"), -0.0, 5e-324, 1 + 2 ** -52])
            elif z3.is_int(e):
                kw[name] = rng.choice([-1, 0, 1, 5])
            elif name == "input_format":
                kw[name] = rng.choice(fmt_pool)
            elif name == "output_format":
                kw[name] = rng.choice([g["SHEXC"], g["SHACL_TURTLE"], "bogus", "shex"])
            else:
                kw[name] = "x"
    return kw
