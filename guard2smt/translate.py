"""guard2smt: AST -> z3 translation of sheXer's argument-validation code (Engine B, DESIGN section 4).

A small symbolic interpreter over the *current source* of the validation functions: statements are
executed under a path condition (a z3 Bool); `raise ValueError` contributes its path condition to
`raises`.  Supported fragment: if/elif/else, for over a tuple (unrolled), integer counters,
`is (not) None`, not/and/or, ==/!=/</>/<=/>=, in / not in a list or tuple literal of constants,
tuple literals and constant subscripts, calls to other translated functions, raise, return, pass,
expression statements (docstrings).  Anything else raises Unsupported (-> exit 2, never a silent
approximation).
"""
import ast
import inspect
import textwrap

import z3


class Unsupported(Exception):
    pass


class Opt:
    """An argument that may be None.  present: z3 Bool; val: z3 expr (String) or None for opaque objects."""

    def __init__(self, name, present, val=None):
        self.name, self.present, self.val = name, present, val


class Bag:
    """Result of a comprehension: [(guard, value)] - an element is present iff its guard holds."""

    def __init__(self, items):
        self.items = items


class Sym:
    """A non-optional symbolic value: z3 Bool / Int / String / FP expression."""

    def __init__(self, name, e):
        self.name, self.e = name, e


def _is_z3(x):
    return isinstance(x, z3.ExprRef)


class Interp:
    def __init__(self, resolver, module_globals, fresh):
        self.resolver = resolver            # name -> ast.FunctionDef of a translatable callee
        self.globals = module_globals       # constants (strings) by name
        self.fresh = fresh                  # callable(name, default) -> symbolic value for an unknown parameter
        self.raises = []                    # [(pc, exception class name)]
        self.calls = []                     # names of the functions actually translated

    # ---------------------------------------------------------------- values
    def truth(self, v):
        if isinstance(v, bool):
            return z3.BoolVal(v)
        if v is None:
            return z3.BoolVal(False)
        if isinstance(v, Sym):
            return self.truth(v.e)
        if isinstance(v, Opt):
            if v.val is None:
                return v.present       # opaque objects: present => truthy (non-empty containers assumed)
            raise Unsupported("truthiness of optional string %s" % v.name)
        if _is_z3(v):
            if z3.is_bool(v):
                return v
            if z3.is_int(v):
                return v != 0
            raise Unsupported("truthiness of %s" % v.sort())
        if isinstance(v, (int, str, tuple)):
            return z3.BoolVal(bool(v))
        if isinstance(v, Bag):
            return z3.Or([g for g, _ in v.items] + [z3.BoolVal(False)])
        raise Unsupported("truthiness of %r" % (v,))

    def is_none(self, v):
        if v is None:
            return z3.BoolVal(True)
        if isinstance(v, Opt):
            return z3.Not(v.present)
        return z3.BoolVal(False)

    def eq(self, a, b):
        """z3 Bool for python a == b."""
        if isinstance(b, (Opt, Sym)) and not isinstance(a, (Opt, Sym)):
            a, b = b, a
        if isinstance(a, Opt):
            if b is None:
                return z3.Not(a.present)
            if isinstance(b, str):
                if a.val is None:
                    raise Unsupported("comparison of the opaque argument %s with a string" % a.name)
                return z3.And(a.present, a.val == z3.StringVal(b))
            if isinstance(b, Opt):
                raise Unsupported("comparison of two optional values")
            raise Unsupported("== between %s and %r" % (a.name, b))
        if isinstance(a, Sym):
            a = a.e
        if isinstance(b, Sym):
            b = b.e
        if _is_z3(a) or _is_z3(b):
            if b is None or a is None:
                return z3.BoolVal(False)
            return self._num(a, b, lambda x, y: x == y, z3.fpEQ)
        return z3.BoolVal(a == b)

    def _num(self, a, b, op, fpop):
        def lift(x, like):
            if _is_z3(x):
                return x
            if isinstance(x, bool):
                return z3.BoolVal(x)
            if isinstance(x, str):
                return z3.StringVal(x)
            if isinstance(x, (int, float)):
                if _is_z3(like) and z3.is_fp(like):
                    return z3.FPVal(float(x), like.sort())
                if _is_z3(like) and z3.is_real(like):
                    return z3.RealVal(x)
                return z3.IntVal(x) if isinstance(x, int) else z3.FPVal(x, z3.Float64())
            raise Unsupported("operand %r" % (x,))
        la, lb = lift(a, b), lift(b, a)
        if z3.is_fp(la) or z3.is_fp(lb):
            return fpop(la, lb)
        return op(la, lb)

    # ---------------------------------------------------------------- expressions
    def ev(self, node, env):
        if isinstance(node, ast.Constant):
            return node.value
        if isinstance(node, ast.Name):
            if node.id in env:
                return env[node.id]
            if node.id in self.globals:
                return self.globals[node.id]
            raise Unsupported("unknown name %s" % node.id)
        if isinstance(node, ast.Tuple) or isinstance(node, ast.List):
            return tuple(self.ev(e, env) for e in node.elts)
        if isinstance(node, ast.Subscript):
            base = self.ev(node.value, env)
            idx = self.ev(node.slice, env)
            if isinstance(base, tuple) and isinstance(idx, int):
                return base[idx]
            raise Unsupported("subscript")
        if isinstance(node, ast.UnaryOp) and isinstance(node.op, ast.Not):
            return z3.Not(self.truth(self.ev(node.operand, env)))
        if isinstance(node, ast.UnaryOp) and isinstance(node.op, ast.USub):
            v = self.ev(node.operand, env)
            if isinstance(v, (int, float)):
                return -v
            raise Unsupported("unary minus")
        if isinstance(node, ast.BoolOp):
            vals = [self.truth(self.ev(v, env)) for v in node.values]
            return z3.And(vals) if isinstance(node.op, ast.And) else z3.Or(vals)
        if isinstance(node, ast.Compare):
            left = self.ev(node.left, env)
            out = []
            for op, comp in zip(node.ops, node.comparators):
                right = self.ev(comp, env)
                out.append(self.compare(op, left, right))
                left = right
            return z3.And(out) if len(out) > 1 else out[0]
        if isinstance(node, ast.BinOp):
            return self.binop(node.op, self.ev(node.left, env), self.ev(node.right, env))
        if isinstance(node, ast.IfExp):
            c = self.truth(self.ev(node.test, env))
            a, b = self.ev(node.body, env), self.ev(node.orelse, env)
            return self.ite(c, a, b)
        if isinstance(node, (ast.ListComp, ast.GeneratorExp)):
            return self.comprehension(node, env)
        if isinstance(node, ast.Attribute):
            # self._x or module.CONST are not part of the guard fragment
            raise Unsupported("attribute access %s" % ast.dump(node)[:60])
        if isinstance(node, ast.Call):
            return self.call(node, env)
        raise Unsupported("expression %s" % type(node).__name__)

    def compare(self, op, a, b):
        if isinstance(op, ast.Is):
            if b is None:
                return self.is_none(a)
            raise Unsupported("is <non-None>")
        if isinstance(op, ast.IsNot):
            if b is None:
                return z3.Not(self.is_none(a))
            raise Unsupported("is not <non-None>")
        if isinstance(op, ast.Eq):
            return self.eq(a, b)
        if isinstance(op, ast.NotEq):
            return z3.Not(self.eq(a, b))
        if isinstance(op, (ast.In, ast.NotIn)):
            if not isinstance(b, tuple):
                raise Unsupported("'in' with a non-literal container")
            r = z3.Or([self.eq(a, x) for x in b]) if b else z3.BoolVal(False)
            return r if isinstance(op, ast.In) else z3.Not(r)
        sa = a.e if isinstance(a, Sym) else a
        sb = b.e if isinstance(b, Sym) else b
        if isinstance(sa, Opt) or isinstance(sb, Opt):
            raise Unsupported("ordering of optional values")
        if isinstance(op, ast.Lt):
            return self._num(sa, sb, lambda x, y: x < y, z3.fpLT)
        if isinstance(op, ast.Gt):
            return self._num(sa, sb, lambda x, y: x > y, z3.fpGT)
        if isinstance(op, ast.LtE):
            return self._num(sa, sb, lambda x, y: x <= y, z3.fpLEQ)
        if isinstance(op, ast.GtE):
            return self._num(sa, sb, lambda x, y: x >= y, z3.fpGEQ)
        raise Unsupported("comparison %s" % type(op).__name__)

    def as_int(self, v):
        if isinstance(v, Sym):
            v = v.e
        if isinstance(v, bool):
            return z3.IntVal(1 if v else 0)
        if isinstance(v, int):
            return z3.IntVal(v)
        if _is_z3(v) and z3.is_bool(v):
            return z3.If(v, z3.IntVal(1), z3.IntVal(0))
        if _is_z3(v) and z3.is_int(v):
            return v
        raise Unsupported("integer operand %r" % (v,))

    def binop(self, op, a, b):
        if isinstance(a, (int, bool)) and isinstance(b, (int, bool)) and not isinstance(op, (ast.Div,)):
            import operator
            table = {ast.Add: operator.add, ast.Sub: operator.sub, ast.Mult: operator.mul, ast.BitXor: operator.xor,
                     ast.BitAnd: operator.and_, ast.BitOr: operator.or_}
            if type(op) in table:
                return table[type(op)](a, b)
        sa = a.e if isinstance(a, Sym) else a
        sb = b.e if isinstance(b, Sym) else b
        both_bool = all(isinstance(x, bool) or (_is_z3(x) and z3.is_bool(x)) for x in (sa, sb))
        if isinstance(op, (ast.BitXor, ast.BitAnd, ast.BitOr)):
            if not both_bool:
                raise Unsupported("bitwise operator on non-booleans")
            ta, tb = self.truth(sa), self.truth(sb)
            return {ast.BitXor: z3.Xor, ast.BitAnd: z3.And, ast.BitOr: z3.Or}[type(op)](ta, tb)
        if isinstance(op, ast.Add):
            return self.as_int(sa) + self.as_int(sb)
        if isinstance(op, ast.Sub):
            return self.as_int(sa) - self.as_int(sb)
        if isinstance(op, ast.Mult):
            if isinstance(sa, int) or isinstance(sb, int):
                return self.as_int(sa) * self.as_int(sb)
        raise Unsupported("binary operator %s" % type(op).__name__)

    def ite(self, c, a, b):
        if isinstance(a, Sym):
            a = a.e
        if isinstance(b, Sym):
            b = b.e
        if isinstance(a, bool) or isinstance(b, bool) or (_is_z3(a) and z3.is_bool(a)):
            return z3.If(c, self.truth(a), self.truth(b))
        return z3.If(c, self.as_int(a), self.as_int(b))

    def comprehension(self, node, env):
        """[elt for x in <tuple> if cond] -> python tuple of (guard, value) pairs flattened into a 'Bag'."""
        if len(node.generators) != 1:
            raise Unsupported("nested comprehension")
        gen = node.generators[0]
        it = self.ev(gen.iter, env)
        if not isinstance(it, tuple) or not isinstance(gen.target, ast.Name):
            raise Unsupported("comprehension over a non-tuple")
        items = []
        for v in it:
            e2 = _clone(env)
            e2[gen.target.id] = v
            guard = z3.And([self.truth(self.ev(c, e2)) for c in gen.ifs] + [z3.BoolVal(True)])
            items.append((guard, self.ev(node.elt, e2)))
        return Bag(items)

    def builtin(self, name, args):
        if name == "len" and len(args) == 1:
            a = args[0]
            if isinstance(a, tuple):
                return len(a)
            if isinstance(a, Bag):
                return z3.Sum([z3.If(g, 1, 0) for g, _ in a.items] + [z3.IntVal(0)])
        if name == "sum" and len(args) == 1:
            a = args[0]
            if isinstance(a, tuple):
                a = Bag([(z3.BoolVal(True), v) for v in a])
            if isinstance(a, Bag):
                return z3.Sum([z3.If(g, self.as_int(v), z3.IntVal(0)) for g, v in a.items] + [z3.IntVal(0)])
        if name in ("any", "all") and len(args) == 1:
            a = args[0]
            if isinstance(a, tuple):
                a = Bag([(z3.BoolVal(True), v) for v in a])
            if isinstance(a, Bag):
                if name == "any":
                    return z3.Or([z3.And(g, self.truth(v)) for g, v in a.items] + [z3.BoolVal(False)])
                return z3.And([z3.Implies(g, self.truth(v)) for g, v in a.items] + [z3.BoolVal(True)])
        if name == "bool" and len(args) == 1:
            return self.truth(args[0])
        if name == "int" and len(args) == 1:
            return self.as_int(args[0])
        return NotImplemented

    # ---------------------------------------------------------------- calls
    def call(self, node, env, pc=None):
        f = node.func
        name = None
        if isinstance(f, ast.Name) and f.id in ("len", "sum", "any", "all", "bool", "int") and not node.keywords:
            r = self.builtin(f.id, [self.ev(a, env) for a in node.args])
            if r is not NotImplemented:
                return r
            raise Unsupported("builtin %s on these operands" % f.id)
        if isinstance(f, ast.Name):
            name = f.id
        elif isinstance(f, ast.Attribute) and isinstance(f.value, ast.Name) and f.value.id in ("self", "Shaper"):
            name = f.attr
        if name is None:
            raise Unsupported("call %s" % ast.dump(f)[:80])
        fd = self.resolver(name)
        if fd is None:
            raise Unsupported("call to untranslated function %s" % name)
        args = [self.ev(a.value, env) if isinstance(a, ast.Starred) else self.ev(a, env) for a in node.args]
        flat = []
        for a, v in zip(node.args, args):
            if isinstance(a, ast.Starred):
                flat.extend(v)
            else:
                flat.append(v)
        kwargs = {k.arg: self.ev(k.value, env) for k in node.keywords}
        return self.run_function(fd, flat, kwargs, pc if pc is not None else z3.BoolVal(True))

    def run_function(self, fd, args, kwargs, pc):
        self.calls.append(fd.name)
        params = [a.arg for a in fd.args.args]
        is_method = params and params[0] == "self"
        if is_method:
            params = params[1:]
        new_env = {}
        defaults = fd.args.defaults
        dvals = {p: d for p, d in zip(params[len(params) - len(defaults):], defaults)}
        pos = list(args)
        if fd.args.vararg is not None:
            n_named = len(params)
            new_env[fd.args.vararg.arg] = tuple(pos[n_named:])
            pos = pos[:n_named]
        for p, v in zip(params, pos):
            new_env[p] = v
        for k, v in kwargs.items():
            if k not in params:
                raise Unsupported("unexpected keyword %s" % k)
            new_env[k] = v
        for p in params:
            if p not in new_env:
                if p in dvals:
                    new_env[p] = self.fresh(p, dvals[p]) if self.fresh is not None and getattr(self, "_top", False) else self.ev(dvals[p], {})
                else:
                    raise Unsupported("missing argument %s in call to %s" % (p, fd.name))
        self.exec_block(fd.body, new_env, pc)
        return None

    # ---------------------------------------------------------------- statements
    def exec_block(self, stmts, env, pc):
        """Returns the path condition under which control falls off the end of the block."""
        for st in stmts:
            if z3.is_false(z3.simplify(pc)):
                return pc
            pc = self.exec_stmt(st, env, pc)
        return pc

    def exec_stmt(self, st, env, pc):
        if isinstance(st, ast.Expr):
            if isinstance(st.value, ast.Constant):
                return pc  # docstring
            if isinstance(st.value, ast.Call):
                self.call(st.value, env, pc)
                # the callee may have raised under part of pc: continue only where it did not
                return z3.And(pc, z3.Not(self.raised_under()))
            raise Unsupported("expression statement")
        if isinstance(st, ast.Pass):
            return pc
        if isinstance(st, ast.Raise):
            exc = st.exc
            cname = "?"
            if isinstance(exc, ast.Call) and isinstance(exc.func, ast.Name):
                cname = exc.func.id
            elif isinstance(exc, ast.Name):
                cname = exc.id
            self.raises.append((pc, cname))
            return z3.BoolVal(False)
        if isinstance(st, ast.Return):
            self.returned = z3.Or(getattr(self, "returned", z3.BoolVal(False)), pc)
            if st.value is not None and not isinstance(st.value, ast.Constant):
                raise Unsupported("return with a value inside a guard")
            return z3.BoolVal(False)
        if isinstance(st, ast.If):
            c = self.truth(self.ev(st.test, env))
            env_t, env_f = _clone(env), _clone(env)
            pc_t = self.exec_block(st.body, env_t, z3.And(pc, c))
            pc_f = self.exec_block(st.orelse, env_f, z3.And(pc, z3.Not(c)))
            for k in set(env_t) | set(env_f):
                a, b = env_t.get(k), env_f.get(k)
                if a is b:
                    env[k] = a
                elif (a is None and isinstance(b, (Opt, Sym))) or (b is None and isinstance(a, (Opt, Sym))):
                    env[k] = a if a is not None else b  # a lazily created parameter: same object on every path
                elif _is_z3(a) and _is_z3(b) and a.sort() == b.sort():
                    env[k] = z3.If(c, a, b)
                elif all(isinstance(x, bool) or (_is_z3(x) and z3.is_bool(x)) for x in (a, b)):
                    env[k] = z3.If(c, self.truth(a), self.truth(b))
                elif isinstance(a, int) and isinstance(b, int) or (_is_z3(a) and isinstance(b, int)) or (_is_z3(b) and isinstance(a, int)):
                    env[k] = z3.If(c, a if _is_z3(a) else z3.IntVal(a), b if _is_z3(b) else z3.IntVal(b))
                else:
                    raise Unsupported("merge of variable %s" % k)
            return z3.Or(pc_t, pc_f)
        if isinstance(st, ast.For):
            it = self.ev(st.iter, env)
            if not isinstance(it, tuple) or st.orelse:
                raise Unsupported("for over a non-tuple")
            if not isinstance(st.target, ast.Name):
                raise Unsupported("for target")
            for v in it:
                env[st.target.id] = v
                pc = self.exec_block(st.body, env, pc)
            return pc
        if isinstance(st, ast.Assign):
            if len(st.targets) == 1 and isinstance(st.targets[0], ast.Name):
                env[st.targets[0].id] = self.ev(st.value, env)
                return pc
            raise Unsupported("assignment target")
        if isinstance(st, ast.AugAssign) and isinstance(st.target, ast.Name):
            env[st.target.id] = self.binop(st.op, env[st.target.id], self.ev(st.value, env))
            return pc
        raise Unsupported("statement %s" % type(st).__name__)

    def raised_under(self):
        return z3.Or([p for p, _ in self.raises]) if self.raises else z3.BoolVal(False)

    def raises_value_error(self):
        return z3.Or([p for p, c in self.raises if c == "ValueError"] + [z3.BoolVal(False)])

    def raises_other(self):
        return z3.Or([p for p, c in self.raises if c != "ValueError"] + [z3.BoolVal(False)])


def _clone(env):
    c = getattr(env, "clone", None)
    return c() if c is not None else dict(env)


def function_ast(func):
    src = textwrap.dedent(inspect.getsource(func))
    tree = ast.parse(src)
    fd = tree.body[0]
    if not isinstance(fd, ast.FunctionDef):
        raise Unsupported("not a function definition")
    return fd
